//! C11 (only genuine members decode), C12 (serialisation laws), C13 (no panic on untrusted data),
//! C14 (plaintext encoding).
use crate::core::*;
use crate::ctxs::NatCtx;
use crate::env::Env;
use crate::p_shuffle::{self, PlainProof};
use crate::val::*;
use num_bigint::BigUint;
use strand::elgamal::{Ciphertext, PrivateKey, PublicKey};
use strand::serialization::*;
use strand::shuffler::ShuffleProof;
use strand::zkp::{ChaumPedersen, Schnorr};

pub const DES_OPS: &[&str] = &[
    "des_e", "des_x", "des_p", "des_ct", "des_pk", "des_sk", "des_schnorr", "des_cp", "des_proof",
    "des_svec_e", "des_svec_x", "des_svec_c", "des_svec_cp", "des_svec_p", "des_vec_e", "des_vec_ct",
];

fn ok_or_err<T>(r: Result<T, strand::util::StrandError>, f: impl FnOnce(T) -> Val) -> Out {
    match r {
        Ok(x) => Out::Ok(f(x)),
        Err(_) => Out::Err,
    }
}

/// run one decoder of the library on `bytes`
pub fn des_op<C: NatCtx>(v: &mut Env<C>, op: &str, bytes: &[u8]) -> Out {
    let bs = bytes.to_vec();
    let ve = |e: &C::E| Val::Nat(C::e_val(e));
    let vx = |x: &C::X| Val::Nat(C::x_val(x));
    let vct = |c: &Ciphertext<C>| l(vec![ve(&c.mhr), ve(&c.gr)]);
    let vcp = |p: &ChaumPedersen<C>| l(vec![ve(&p.commitment1), ve(&p.commitment2), vx(&p.challenge), vx(&p.response)]);
    let opn = op.to_string();
    v.case(op, vec![b(bytes)], move || match opn.as_str() {
        "des_e" => ok_or_err(C::E::strand_deserialize(&bs), |e| ve(&e)),
        "des_x" => ok_or_err(C::X::strand_deserialize(&bs), |x| vx(&x)),
        "des_p" => ok_or_err(C::P::strand_deserialize(&bs), |p| Val::Nat(C::p_val(&p))),
        "des_ct" => ok_or_err(Ciphertext::<C>::strand_deserialize(&bs), |c| vct(&c)),
        "des_pk" => ok_or_err(PublicKey::<C>::strand_deserialize(&bs), |k| ve(strand::verif_hooks::pk_element(&k))),
        "des_sk" => ok_or_err(PrivateKey::<C>::strand_deserialize(&bs), |k| l(vec![vx(strand::verif_hooks::sk_value(&k)), ve(k.pk_element())])),
        "des_schnorr" => ok_or_err(Schnorr::<C>::strand_deserialize(&bs), |p| l(vec![ve(&p.commitment), vx(&p.challenge), vx(&p.response)])),
        "des_cp" => ok_or_err(ChaumPedersen::<C>::strand_deserialize(&bs), |p| vcp(&p)),
        "des_proof" => ok_or_err(ShuffleProof::<C>::strand_deserialize(&bs), |p| PlainProof::from(&p).val()),
        "des_svec_e" => ok_or_err(StrandVectorE::<C>::strand_deserialize(&bs), |x| l(x.0.iter().map(ve).collect())),
        "des_svec_x" => ok_or_err(StrandVectorX::<C>::strand_deserialize(&bs), |x| l(x.0.iter().map(vx).collect())),
        "des_svec_c" => ok_or_err(StrandVectorC::<C>::strand_deserialize(&bs), |x| l(x.0.iter().map(vct).collect())),
        "des_svec_cp" => ok_or_err(StrandVectorCP::<C>::strand_deserialize(&bs), |x| l(x.0.iter().map(vcp).collect())),
        "des_svec_p" => ok_or_err(StrandVectorP::<C>::strand_deserialize(&bs), |x| l(x.0.iter().map(|p| Val::Nat(C::p_val(p))).collect())),
        "des_vec_e" => ok_or_err(Vec::<C::E>::strand_deserialize(&bs), |x| l(x.iter().map(ve).collect())),
        "des_vec_ct" => ok_or_err(Vec::<Ciphertext<C>>::strand_deserialize(&bs), |x| l(x.iter().map(vct).collect())),
        _ => panic!("unknown des op"),
    })
}

/// a set of honest wire objects: (des op, ser op, value as Val, bytes)
pub struct Wire {
    pub des: &'static str,
    pub ser: &'static str,
    pub val: Val,
    pub bytes: Vec<u8>,
}

pub fn honest_objects<C: NatCtx>(v: &mut Env<C>, variety: usize) -> Vec<Wire> {
    let ctx = v.ctx.clone();
    let q = v.q.clone();
    let mut out = vec![];
    let e = match variety % 4 { 0 => big(1), 1 => v.g.clone(), _ => v.rnd_member() };
    let x = match variety % 4 { 0 => big(0), 1 => &q - 1u32, _ => v.rnd_exp() };
    let m = match variety % 3 { 0 => big(0), 1 => &q - 2u32, _ => v.h.rng.below(&(&q - 1u32)) };
    out.push(Wire { des: "des_e", ser: "ser_e", val: n(&e), bytes: v.e(&e).strand_serialize().unwrap() });
    out.push(Wire { des: "des_x", ser: "ser_x", val: n(&x), bytes: v.x(&x).strand_serialize().unwrap() });
    out.push(Wire { des: "des_p", ser: "ser_p", val: n(&m), bytes: C::p_raw(&m).strand_serialize().unwrap() });
    let key = PrivateKey::from(&v.x(&x), &ctx);
    let c = key.get_pk().encrypt_with_randomness(&v.e(&e), &{ let t_ = v.rnd_exp(); C::x_raw(&t_) });
    out.push(Wire { des: "des_ct", ser: "ser_ct", val: v.vct(&c), bytes: c.strand_serialize().unwrap() });
    out.push(Wire { des: "des_pk", ser: "ser_e", val: n(&C::e_val(key.pk_element())), bytes: key.get_pk().strand_serialize().unwrap() });
    let zkp = strand::zkp::Zkp::new(&ctx);
    load_tape(&[v.rnd_exp()]);
    let sp = zkp.schnorr_prove(&v.x(&x), key.pk_element(), None, b"l").unwrap();
    out.push(Wire { des: "des_schnorr", ser: "ser_schnorr", val: v.vschnorr(&sp), bytes: sp.strand_serialize().unwrap() });
    load_tape(&[v.rnd_exp()]);
    let (_, cp) = key.decrypt_and_prove(&c, b"l").unwrap();
    strand::verif_hooks::load_exp_tape(vec![]);
    out.push(Wire { des: "des_cp", ser: "ser_cp", val: v.vcp(&cp), bytes: cp.strand_serialize().unwrap() });
    // vectors of length 0..k
    let k = variety % 4;
    let es: Vec<BigUint> = (0..k).map(|i| if i == 0 { big(1) } else { v.rnd_member() }).collect();
    let xs: Vec<BigUint> = (0..k).map(|i| if i == 0 { big(0) } else { v.rnd_exp() }).collect();
    let cts: Vec<Ciphertext<C>> = (0..k).map(|_| key.get_pk().encrypt_with_randomness(&{ let t_ = v.rnd_member(); C::e_raw(&t_) }, &{ let t_ = v.rnd_exp(); C::x_raw(&t_) })).collect();
    let ese: Vec<C::E> = es.iter().map(C::e_raw).collect();
    out.push(Wire { des: "des_svec_e", ser: "ser_svec_e", val: p_shuffle::vnats(&es), bytes: StrandVectorE::<C>(ese.clone()).strand_serialize().unwrap() });
    out.push(Wire { des: "des_vec_e", ser: "ser_vec_e", val: p_shuffle::vnats(&es), bytes: ese.strand_serialize().unwrap() });
    out.push(Wire { des: "des_svec_x", ser: "ser_svec_x", val: p_shuffle::vnats(&xs), bytes: StrandVectorX::<C>(xs.iter().map(C::x_raw).collect()).strand_serialize().unwrap() });
    out.push(Wire { des: "des_svec_p", ser: "ser_svec_p", val: p_shuffle::vnats(&xs), bytes: StrandVectorP::<C>(xs.iter().map(C::p_raw).collect()).strand_serialize().unwrap() });
    out.push(Wire { des: "des_svec_c", ser: "ser_svec_c", val: p_shuffle::vcts(&cts), bytes: StrandVectorC::<C>(cts.clone()).strand_serialize().unwrap() });
    out.push(Wire { des: "des_vec_ct", ser: "ser_vec_ct", val: p_shuffle::vcts(&cts), bytes: cts.strand_serialize().unwrap() });
    let cps: Vec<ChaumPedersen<C>> = (0..k)
        .map(|_| {
            load_tape(&[v.rnd_exp()]);
            key.decrypt_and_prove(&c, b"").unwrap().1
        })
        .collect();
    strand::verif_hooks::load_exp_tape(vec![]);
    let cpv = l(cps.iter().map(|p| v.vcp(p)).collect());
    out.push(Wire { des: "des_svec_cp", ser: "ser_svec_cp", val: cpv, bytes: StrandVectorCP::<C>(cps).strand_serialize().unwrap() });
    // a shuffle proof
    let nn = 1 + variety % 3;
    let s = p_shuffle::setup(v, &x, nn, b"w");
    let perm: Vec<usize> = (0..nn).rev().collect();
    let es = p_shuffle::make_cts(v, &s, nn, variety);
    let rs: Vec<BigUint> = (0..nn).map(|_| v.rnd_exp()).collect();
    let sh = strand::shuffler::Shuffler::new(&s.pk, &s.gens, &ctx);
    load_tape(&rs);
    let (eps, rps) = sh.apply_permutation(&perm, &es);
    let tape = p_shuffle::proof_tape(v, nn, 0);
    load_tape(&tape);
    let pf = sh.gen_proof(&es, &eps, &rps, &perm, b"w").unwrap();
    strand::verif_hooks::load_exp_tape(vec![]);
    out.push(Wire { des: "des_proof", ser: "ser_proof", val: PlainProof::from(&pf).val(), bytes: pf.strand_serialize().unwrap() });
    out
}

/// `Vec<Vec<u8>>` framing: u32 count, then per item u32 length + bytes. Returns the encoding with
/// `pad` appended inside the first item.
pub fn pad_first_inner_item(bytes: &[u8], pad: &[u8]) -> Option<Vec<u8>> {
    if bytes.len() < 8 || u32::from_le_bytes(bytes[0..4].try_into().ok()?) == 0 {
        return None;
    }
    let len = u32::from_le_bytes(bytes[4..8].try_into().ok()?) as usize;
    if 8 + len > bytes.len() {
        return None;
    }
    let mut out = bytes[0..4].to_vec();
    out.extend(((len + pad.len()) as u32).to_le_bytes());
    out.extend(&bytes[8..8 + len]);
    out.extend(pad);
    out.extend(&bytes[8 + len..]);
    Some(out)
}
pub fn pad_last_inner_item(bytes: &[u8], pad: &[u8]) -> Option<Vec<u8>> {
    if bytes.len() < 8 {
        return None;
    }
    let count = u32::from_le_bytes(bytes[0..4].try_into().ok()?) as usize;
    if count == 0 {
        return None;
    }
    let mut pos = 4;
    let mut last = 4;
    for _ in 0..count {
        if pos + 4 > bytes.len() {
            return None;
        }
        last = pos;
        let len = u32::from_le_bytes(bytes[pos..pos + 4].try_into().ok()?) as usize;
        pos += 4 + len;
    }
    if pos != bytes.len() {
        return None;
    }
    let len = u32::from_le_bytes(bytes[last..last + 4].try_into().ok()?) as usize;
    let mut out = bytes[..last].to_vec();
    out.extend(((len + pad.len()) as u32).to_le_bytes());
    out.extend(&bytes[last + 4..]);
    out.extend(pad);
    Some(out)
}

/// an `io::Write` that accepts at most `chunk` bytes per call (a socket, a pipe, a nearly full buffer behave like
/// this): `BorshSerialize::serialize` into it must still produce exactly the bytes of `try_to_vec`
pub struct ShortWriter {
    pub out: Vec<u8>,
    pub chunk: usize,
}
impl std::io::Write for ShortWriter {
    fn write(&mut self, buf: &[u8]) -> std::io::Result<usize> {
        let k = buf.len().min(self.chunk);
        self.out.extend(&buf[..k]);
        Ok(k)
    }
    fn flush(&mut self) -> std::io::Result<()> {
        Ok(())
    }
}
pub fn short_writer_agrees<T: borsh::BorshSerialize>(x: &T) -> Option<usize> {
    let want = x.try_to_vec().ok()?;
    for chunk in [1usize, 3, 7, 31, 32, 33, 255] {
        let mut w = ShortWriter { out: vec![], chunk };
        if x.serialize(&mut w).is_err() || w.out != want {
            return Some(chunk);
        }
    }
    // a fixed buffer one byte too small must be an error, never a silent truncation
    if !want.is_empty() {
        let mut small = vec![0u8; want.len() - 1];
        let mut slice: &mut [u8] = &mut small;
        if x.serialize(&mut slice).is_ok() {
            return Some(0);
        }
    }
    None
}

/// SCALE for C12 (implementation only, cheapest group): vectors beyond every plausible block size round-trip
/// exactly through every vector wire type, and vectors differing only in the LAST item encode differently
fn scale_c12<C: NatCtx>(v: &mut Env<C>) {
    if !(v.small && v.p == big(23)) {
        return;
    }
    let quick = v.h.tier == Tier::Quick;
    let ctx = v.ctx.clone();
    let tok = v.tok.clone();
    let key = PrivateKey::from(&v.x(&big(3)), &ctx);
    for nn in if quick { vec![4097usize, 70001] } else { vec![257, 1025, 4097, 16385, 65537, 70001, 150000] } {
        strand::verif_hooks::load_exp_tape(vec![]);
        let es: Vec<BigUint> = (0..nn).map(|_| v.rnd_member()).collect();
        let xs: Vec<BigUint> = (0..nn).map(|_| v.rnd_exp()).collect();
        let ee: Vec<C::E> = es.iter().map(C::e_raw).collect();
        let xe: Vec<C::X> = xs.iter().map(C::x_raw).collect();
        let pe: Vec<C::P> = xs.iter().map(C::p_raw).collect();
        let cts: Vec<Ciphertext<C>> = ee.iter().map(|m| key.get_pk().encrypt(m)).collect();
        let mut check = |what: &str, ok: bool| v.h.check(ok, || format!("{} of {} items does not round-trip / is not injective in its last item on {}", what, nn, tok));
        let b1 = StrandVectorE::<C>(ee.clone()).strand_serialize().unwrap();
        check("StrandVectorE", StrandVectorE::<C>::strand_deserialize(&b1).map(|x| x.0 == ee).unwrap_or(false));
        let mut e2 = ee.clone();
        e2[nn - 1] = C::e_raw(&((&es[nn - 1] * &v.g) % &v.p));
        check("StrandVectorE (last item changed)", StrandVectorE::<C>(e2).strand_serialize().unwrap() != b1);
        let b1 = ee.strand_serialize().unwrap();
        check("Vec<E>", Vec::<C::E>::strand_deserialize(&b1).map(|x| x == ee).unwrap_or(false));
        let b1 = StrandVectorX::<C>(xe.clone()).strand_serialize().unwrap();
        check("StrandVectorX", StrandVectorX::<C>::strand_deserialize(&b1).map(|x| x.0 == xe).unwrap_or(false));
        let b1 = StrandVectorP::<C>(pe.clone()).strand_serialize().unwrap();
        check("StrandVectorP", StrandVectorP::<C>::strand_deserialize(&b1).map(|x| x.0.iter().map(C::p_val).collect::<Vec<_>>() == xs).unwrap_or(false));
        let b1 = StrandVectorC::<C>(cts.clone()).strand_serialize().unwrap();
        check("StrandVectorC", StrandVectorC::<C>::strand_deserialize(&b1).map(|x| x.0 == cts).unwrap_or(false));
        let mut c2 = cts.clone();
        c2[nn - 1] = Ciphertext { mhr: c2[nn - 1].gr.clone(), gr: c2[nn - 1].mhr.clone() };
        check("StrandVectorC (last item changed)", c2[nn - 1] == cts[nn - 1] || StrandVectorC::<C>(c2).strand_serialize().unwrap() != b1);
        let b1 = cts.strand_serialize().unwrap();
        check("Vec<Ciphertext>", Vec::<Ciphertext<C>>::strand_deserialize(&b1).map(|x| x == cts).unwrap_or(false));
        if nn <= 20000 {
            let cps: Vec<ChaumPedersen<C>> = cts.iter().take(nn).map(|c| key.decrypt_and_prove(c, b"").unwrap().1).collect();
            let items: Vec<Vec<u8>> = cps.iter().map(|c| c.strand_serialize().unwrap()).collect();
            let b1 = StrandVectorCP::<C>(cps).strand_serialize().unwrap();
            check("StrandVectorCP", StrandVectorCP::<C>::strand_deserialize(&b1).map(|x| x.0.len() == nn && x.0.iter().zip(items.iter()).all(|(a, b_)| a.strand_serialize().unwrap() == *b_)).unwrap_or(false));
        }
    }
}

pub fn run_c12<C: NatCtx>(v: &mut Env<C>) {
    scale_c12(v);
    {
        // every wire type written through a short-writing destination
        let ctx = v.ctx.clone();
        let tok = v.tok.clone();
        let x = v.rnd_exp();
        let key = PrivateKey::from(&v.x(&x), &ctx);
        strand::verif_hooks::load_exp_tape(vec![]);
        let e = v.rnd_member();
        let c = key.get_pk().encrypt(&v.e(&e));
        let zkp = strand::zkp::Zkp::new(&ctx);
        let sp = zkp.schnorr_prove(&v.x(&x), key.pk_element(), None, b"w").unwrap();
        let (_, cp) = key.decrypt_and_prove(&c, b"w").unwrap();
        let s = p_shuffle::setup(v, &x, 2, b"sw");
        let sh = strand::shuffler::Shuffler::new(&s.pk, &s.gens, &ctx);
        let es = vec![c.clone(), key.get_pk().encrypt(&v.e(&e))];
        let (eps, rs, perm) = sh.gen_shuffle(&es);
        let pf = sh.gen_proof(&es, &eps, &rs, &perm, b"w").unwrap();
        let mut bad: Vec<(&str, usize)> = vec![];
        let mut chk = |name: &'static str, r: Option<usize>| if let Some(k) = r { bad.push((name, k)) };
        chk("element", short_writer_agrees(&v.e(&e)));
        chk("exponent", short_writer_agrees(&v.x(&x)));
        chk("plaintext", short_writer_agrees(&C::p_raw(&x)));
        chk("ciphertext", short_writer_agrees(&c));
        chk("public key", short_writer_agrees(&key.get_pk()));
        chk("private key", short_writer_agrees(&key));
        chk("Schnorr proof", short_writer_agrees(&sp));
        chk("Chaum-Pedersen proof", short_writer_agrees(&cp));
        chk("shuffle proof", short_writer_agrees(&pf));
        chk("StrandVectorC", short_writer_agrees(&StrandVectorC::<C>(es.clone())));
        chk("StrandVectorE", short_writer_agrees(&StrandVectorE::<C>(s.gens.clone())));
        chk("StrandVectorX", short_writer_agrees(&StrandVectorX::<C>(rs.clone())));
        chk("Vec<Ciphertext>", short_writer_agrees(&es));
        v.h.check(bad.is_empty(), || format!("serialising into a writer that takes at most k bytes per call (k = 0: a buffer one byte too small) does not give the bytes of try_to_vec / an error for {:?} on {}", bad, tok));
    }
    let quick = v.h.tier == Tier::Quick;
    let reps = if v.small { if quick { 8 } else { 40 } } else if quick { 2 } else { 8 };
    let tok = v.tok.clone();
    if v.small && v.p <= big(23) {
        // all values of the scalar types
        v.h.exhaustive_notes.push(format!("{}: every element, exponent and plaintext value", tok));
        let mem = subgroup(&v.p, &v.q);
        for e in &mem {
            let bytes = v.e(e).strand_serialize().unwrap();
            v.case("ser_e", vec![n(e)], || Out::Ok(b(&bytes)));
            let r = des_op(v, "des_e", &bytes);
            v.h.check(r == Out::Ok(n(e)), || format!("element {:x} does not round-trip on {}", e, tok));
        }
        let qn = v.q.to_u64_digits()[0];
        let mut seen = std::collections::HashSet::new();
        for x in 0..qn {
            let bytes = v.x(&big(x)).strand_serialize().unwrap();
            v.h.check(seen.insert(bytes.clone()), || format!("two exponents share an encoding on {}", tok));
            v.case("ser_x", vec![nu(x)], || Out::Ok(b(&bytes)));
            let r = des_op(v, "des_x", &bytes);
            v.h.check(r == Out::Ok(nu(x)), || format!("exponent {:x} does not round-trip on {}", x, tok));
            let bytes = C::p_raw(&big(x)).strand_serialize().unwrap();
            v.case("ser_p", vec![nu(x)], || Out::Ok(b(&bytes)));
            let r = des_op(v, "des_p", &bytes);
            v.h.check(r == Out::Ok(nu(x)), || format!("plaintext {:x} does not round-trip on {}", x, tok));
        }
    }
    if !v.small {
        // scalar wire types on integers with a special machine representation: every byte length, zero limbs,
        // single bits (plaintexts and exponents: any value in range; elements: squares, hence members)
        let (p, q) = (v.p.clone(), v.q.clone());
        let mut seen_x = std::collections::HashMap::new();
        for x in crate::ctxs::structured_values(&p, &mut v.h.rng, 1, if quick { 5 } else { 1 }) {
            if x < q {
                let bytes = v.x(&x).strand_serialize().unwrap();
                v.case("ser_x", vec![n(&x)], || Out::Ok(b(&bytes)));
                let r = des_op(v, "des_x", &bytes);
                v.h.check(r == Out::Ok(n(&x)), || format!("exponent {:x} does not round-trip on {}", x, tok));
                if let Some(prev) = seen_x.insert(bytes.clone(), x.clone()) {
                    v.h.check(prev == x, || format!("exponents {:x} and {:x} share an encoding on {}", prev, x, tok));
                }
                let bytes = C::p_raw(&x).strand_serialize().unwrap();
                v.case("ser_p", vec![n(&x)], || Out::Ok(b(&bytes)));
                let r = des_op(v, "des_p", &bytes);
                v.h.check(r == Out::Ok(n(&x)), || format!("plaintext {:x} ({} bytes) does not round-trip on {}", x, (x.bits() + 7) / 8, tok));
                let bytes = StrandVectorP::<C>(vec![C::p_raw(&x), C::p_raw(&big(0)), C::p_raw(&x)]).strand_serialize().unwrap();
                let r = des_op(v, "des_svec_p", &bytes);
                v.h.check(r == Out::Ok(l(vec![n(&x), n(&big(0)), n(&x)])), || format!("a plaintext vector containing {:x} does not round-trip on {}", x, tok));
            }
            // the square of a structured value is a member, often with a short or zero-tailed representation
            let e = (&x * &x) % &p;
            if e != big(0) && (x.bits() < 1030 || quick == false || x.bits() % 3 == 0) {
                let bytes = v.e(&e).strand_serialize().unwrap();
                v.case("ser_e", vec![n(&e)], || Out::Ok(b(&bytes)));
                let r = des_op(v, "des_e", &bytes);
                v.h.check(r == Out::Ok(n(&e)), || format!("element {:x} does not round-trip on {}", e, tok));
            }
        }
    }
    for i in 0..reps {
        for w in honest_objects(v, i) {
            // byte-exact encoder, deterministic
            let bytes = w.bytes.clone();
            v.case(w.ser, vec![w.val.clone()], || Out::Ok(b(&bytes)));
            // round trip
            let r = des_op(v, w.des, &w.bytes);
            v.h.check(r == Out::Ok(w.val.clone()), || format!("{} does not round-trip on {}: {:?}", w.des, tok, w.bytes));
            // appended bytes are rejected
            for extra in [vec![0u8], vec![1, 2, 3], vec![0; 8]] {
                let mut bs = w.bytes.clone();
                bs.extend(extra);
                let r = des_op(v, w.des, &bs);
                v.h.check(r == Out::Err, || format!("{} accepts an encoding with appended bytes on {}", w.des, tok));
            }
            // bytes removed from the end are rejected
            for k in 1..=8usize {
                if k <= w.bytes.len() {
                    let bs = &w.bytes[..w.bytes.len() - k];
                    let r = des_op(v, w.des, bs);
                    v.h.check(r == Out::Err, || format!("{} accepts an encoding with {} bytes removed from the end on {}", w.des, k, tok));
                }
            }
            // StrandVector wrappers: extra bytes INSIDE a nested item (inner length prefix bumped
            // accordingly) must be rejected too: every item is decoded strictly
            if w.des.starts_with("des_svec_") && w.bytes.len() > 8 {
                for pad in [vec![0u8], vec![7, 7, 7]] {
                    if let Some(bs) = pad_first_inner_item(&w.bytes, &pad) {
                        let r = des_op(v, w.des, &bs);
                        v.h.check(r == Out::Err, || format!("{} accepts trailing bytes inside a nested item on {}", w.des, tok));
                    }
                    if let Some(bs) = pad_last_inner_item(&w.bytes, &pad) {
                        let r = des_op(v, w.des, &bs);
                        v.h.check(r == Out::Err, || format!("{} accepts trailing bytes inside its last nested item on {}", w.des, tok));
                    }
                }
            }
            // an interior byte removed: only model/implementation agreement is required
            if w.bytes.len() > 2 {
                let pos = (v.h.rng.below_u(w.bytes.len() as u64 - 1) + 1) as usize;
                let mut bs = w.bytes.clone();
                bs.remove(pos);
                des_op(v, w.des, &bs);
            }
        }
    }
}

pub fn run_c11<C: NatCtx>(v: &mut Env<C>) {
    let quick = v.h.tier == Tier::Quick;
    let (p, q, g) = (v.p.clone(), v.q.clone(), v.g.clone());
    let ctx = v.ctx.clone();
    let tok = v.tok.clone();
    let le = C::kind() == 'B';
    let int_of = |bs: &[u8]| if le { BigUint::from_bytes_le(bs) } else { BigUint::from_bytes_be(bs) };
    let mut raw = |v: &mut Env<C>, bs: &[u8]| {
        let bsv = bs.to_vec();
        let ctx2 = ctx.clone();
        let r = v.case("e_from_bytes", vec![b(bs)], || match ctx2.element_from_bytes(&bsv) {
            Ok(e) => Out::Ok(Val::Nat(C::e_val(&e))),
            Err(_) => Out::Err,
        });
        let nval = int_of(bs);
        let member = nval >= big(1) && nval < p && nval.modpow(&q, &p) == big(1);
        let tok = v.tok.clone();
        v.h.check((r == Out::Ok(n(&nval))) == member && (member || r == Out::Err), || format!("element_from_bytes({:?}) = {:?} but membership of {:x} is {} on {}", bs, r, nval, member, tok));
        let ctx2 = ctx.clone();
        let bsv = bs.to_vec();
        let r = v.case("x_from_bytes", vec![b(bs)], || match ctx2.exp_from_bytes(&bsv) {
            Ok(e) => Out::Ok(Val::Nat(C::x_val(&e))),
            Err(_) => Out::Err,
        });
        let inrange = nval < q;
        v.h.check((r == Out::Ok(n(&nval))) == inrange && (inrange || r == Out::Err), || format!("exp_from_bytes({:?}) = {:?} but {:x} < q is {} on {}", bs, r, nval, inrange, tok));
    };
    if v.small {
        raw(v, &[]);
        for a in 0..=255u8 {
            raw(v, &[a]);
        }
        let two = if quick { p == big(23) || p == big(11) } else { p <= big(263) };
        if two {
            v.h.exhaustive_notes.push(format!("{}: all byte strings of length 0..2 as element and as exponent", tok));
            for a in 0..=255u8 {
                for c in 0..=255u8 {
                    raw(v, &[a, c]);
                }
            }
        } else {
            v.h.exhaustive_notes.push(format!("{}: all byte strings of length 0..1 as element and as exponent", tok));
        }
        if !quick && p == big(23) {
            for a in 0..=255u8 {
                for c in (0..=255u8).step_by(5) {
                    for d in [0u8, 1, 255] {
                        raw(v, &[a, c, d]);
                    }
                }
            }
        }
    } else {
        let to_bytes = |x: &BigUint| if le { x.to_bytes_le() } else { x.to_bytes_be() };
        let mut vals: Vec<BigUint> = vec![big(0), big(1), &p - 1u32, p.clone(), &p + 1u32, q.clone(), &q - 1u32, &q + 1u32, big(2).pow(2048), g.clone()];
        for _ in 0..(if quick { 6 } else { 60 }) {
            let m = v.rnd_member();
            vals.push(m.clone());
            vals.push(&p - &m); // a non-residue (q odd)
            vals.push(v.h.rng.below(&p));
        }
        // integers with a special machine representation (zero limbs, single bits, every byte length)
        vals.extend(crate::ctxs::structured_values(&p, &mut v.h.rng, 1, if quick { 5 } else { 1 }));
        for x in &vals {
            let bs = to_bytes(x);
            raw(v, &bs);
            // leading / trailing zero paddings
            let mut padded = bs.clone();
            if le { padded.push(0) } else { padded.insert(0, 0) }
            raw(v, &padded);
            let mut shifted = bs.clone();
            if le { shifted.insert(0, 0) } else { shifted.push(0) }
            raw(v, &shifted);
        }
    }
    // ---- the radix-string entry point (element_from_string_radix) and to_string_radix
    {
        let radixes: Vec<u32> = if quick { vec![2, 8, 10, 16, 36] } else { (2..=36).collect() };
        let mut vals: Vec<BigUint> = vec![big(0), big(1), &p - 1u32, p.clone(), &p + 1u32, q.clone(), g.clone(), &p * 2u32 + 1u32];
        if v.small && p <= big(47) {
            vals = (0..60u32).map(BigUint::from).collect();
        }
        for _ in 0..(if quick { 4 } else { 30 }) {
            let m = v.rnd_member();
            vals.push(&p - &m);
            vals.push(m);
            vals.push(v.h.rng.below(&p));
        }
        let mut from_str = |v: &mut Env<C>, radix: u32, s: &[u8], canonical_of: Option<&BigUint>| {
            let st = String::from_utf8(s.to_vec()).unwrap();
            let ctx2 = ctx.clone();
            let r = v.case("e_from_str", vec![nu(radix as u64), b(s)], || match std::panic::catch_unwind(std::panic::AssertUnwindSafe(|| ctx2.e_from_str(&st, radix))) {
                Ok(Ok(e)) => Out::Ok(Val::Nat(C::e_val(&e))),
                Ok(Err(_)) => Out::Err,
                Err(_) => Out::Panic,
            });
            let tok = v.tok.clone();
            v.h.check(r != Out::Panic, || format!("element_from_string_radix({:?}, {}) panics on {}", String::from_utf8_lossy(s), radix, tok));
            if let Out::Ok(Val::Nat(e)) = &r {
                let member = *e >= big(1) && *e < p && e.modpow(&q, &p) == big(1);
                v.h.check(member, || format!("element_from_string_radix({:?}, {}) = {:x}: not a member on {}", String::from_utf8_lossy(s), radix, e, tok));
            }
            if let Some(x) = canonical_of {
                let member = *x >= big(1) && *x < p && x.modpow(&q, &p) == big(1);
                v.h.check((r == Out::Ok(n(x))) == member && (member || r == Out::Err), || format!("element_from_string_radix of the radix-{} string of {:x} = {:?}, membership is {} on {}", radix, x, r, member, tok));
            }
        };
        for (i, x) in vals.iter().enumerate() {
            for &radix in &radixes {
                if !v.small && !quick && radix % 5 != 1 && ![2, 8, 10, 16, 36].contains(&radix) {
                    continue;
                }
                let ex = C::e_raw(x);
                let s = v.case("to_str", vec![nu(radix as u64), n(x)], || Out::Ok(b(C::e_to_str(&ex, radix).as_bytes())));
                let xx = C::x_raw(x);
                let s2 = v.case("to_str", vec![nu(radix as u64), n(x)], || Out::Ok(b(C::x_to_str(&xx, radix).as_bytes())));
                v.h.check(s == s2, || "elements and exponents print differently".to_string());
                let Out::Ok(Val::Bytes(sb)) = s else { continue };
                from_str(v, radix, &sb, Some(x));
                // upper case and leading zeros denote the same number on both libraries
                let up: Vec<u8> = sb.iter().map(|c| c.to_ascii_uppercase()).collect();
                from_str(v, radix, &up, Some(x));
                let mut z = vec![b'0'; 1 + i % 3];
                z.extend(&sb);
                from_str(v, radix, &z, Some(x));
                // malformed: characters no grammar accepts, at either end and inside
                for bad in [&b"-"[..], b" ", b"!", b"\n", b"."] {
                    let mut t = sb.clone();
                    t.extend(bad);
                    from_str(v, radix, &t, None);
                    let mut t = bad.to_vec();
                    t.extend(&sb);
                    from_str(v, radix, &t, None);
                }
                // a digit equal to the radix (generic path of both libraries; radix 8/16 only on short strings, see Model/Radix.lean)
                if radix < 36 && (le || ![8, 16].contains(&radix) || sb.len() < 10) {
                    let dch = if radix < 10 { b'0' + radix as u8 } else { b'a' + (radix - 10) as u8 };
                    let mut t = sb.clone();
                    t.push(dch);
                    from_str(v, radix, &t, None);
                }
                if le {
                    // num-bigint only: one leading '+', '_' separators (not leading)
                    for pre in [&b"+"[..], b"++", b"_", b"+_"] {
                        let mut t = pre.to_vec();
                        t.extend(&sb);
                        from_str(v, radix, &t, None);
                    }
                    let mut t = sb.clone();
                    t.insert(sb.len() / 2 + (sb.len() % 2), b'_');
                    from_str(v, radix, &t, None);
                    let mut t = sb.clone();
                    t.push(b'_');
                    from_str(v, radix, &t, None);
                }
            }
        }
        for &radix in &radixes {
            from_str(v, radix, b"", None);
            if le { from_str(v, radix, b"+", None); from_str(v, radix, b"_", None); }
        }
    }
    // composite objects decode only if each embedded element / exponent does
    let reps = if quick { 2 } else { 8 };
    let bad_e: Vec<BigUint> = vec![big(0), &p - 1u32, p.clone(), &p + 5u32];
    let bad_x: Vec<BigUint> = vec![q.clone(), &q + 1u32, &q * 3u32];
    for i in 0..reps {
        for w in honest_objects(v, i + 2) {
            if w.des == "des_p" || w.des == "des_svec_p" {
                continue;
            }
            // substitute each embedded number by an invalid one: walk the Val tree
            let mut leaves = vec![];
            collect_paths(&w.val, &mut vec![], &mut leaves);
            for path in leaves.iter().take(if quick { 6 } else { 40 }) {
                let is_x = leaf_is_exponent(w.des, path);
                let subs = if is_x { &bad_x } else { &bad_e };
                let sub = &subs[(i + path.len()) % subs.len()];
                let mut val2 = w.val.clone();
                set_path(&mut val2, path, Val::Nat(sub.clone()));
                // serialise the invalid object through the model's encoder is not possible on the
                // implementation side without raw constructors; build it with raw constructors:
                if let Some(bytes) = raw_serialize::<C>(w.des, &val2) {
                    let r = des_op(v, w.des, &bytes);
                    v.h.check(r == Out::Err, || format!("{} decodes with an invalid embedded {} {:x} at {:?} on {}", w.des, if is_x { "exponent" } else { "element" }, sub, path, tok));
                }
            }
        }
    }
}

fn collect_paths(v: &Val, cur: &mut Vec<usize>, out: &mut Vec<Vec<usize>>) {
    match v {
        Val::Nat(_) => out.push(cur.clone()),
        Val::List(l) => {
            for (i, x) in l.iter().enumerate() {
                cur.push(i);
                collect_paths(x, cur, out);
                cur.pop();
            }
        }
        _ => {}
    }
}
fn set_path(v: &mut Val, path: &[usize], new: Val) {
    if path.is_empty() {
        *v = new;
        return;
    }
    if let Val::List(l) = v {
        set_path(&mut l[path[0]], &path[1..], new);
    }
}
/// which leaves of the Val of a wire type are exponents
fn leaf_is_exponent(des: &str, path: &[usize]) -> bool {
    match des {
        "des_x" | "des_svec_x" => true,
        "des_sk" => path[0] == 0,
        "des_schnorr" => path[0] >= 1,
        "des_cp" => path[0] >= 2,
        "des_svec_cp" => path[1] >= 2,
        "des_proof" => path[0] == 1,
        _ => false,
    }
}
fn nat_of(v: &Val) -> BigUint {
    match v {
        Val::Nat(x) => x.clone(),
        _ => panic!("nat expected"),
    }
}
fn list_of(v: &Val) -> &Vec<Val> {
    match v {
        Val::List(x) => x,
        _ => panic!("list expected"),
    }
}
/// serialise an object that may contain invalid numbers, using the raw constructors
pub fn raw_serialize<C: NatCtx>(des: &str, val: &Val) -> Option<Vec<u8>> {
    let e = |v: &Val| C::e_raw(&nat_of(v));
    let x = |v: &Val| C::x_raw(&nat_of(v));
    let ct = |v: &Val| Ciphertext::<C> { mhr: e(&list_of(v)[0]), gr: e(&list_of(v)[1]) };
    let cp = |v: &Val| {
        let l = list_of(v);
        ChaumPedersen::<C> { commitment1: e(&l[0]), commitment2: e(&l[1]), challenge: x(&l[2]), response: x(&l[3]) }
    };
    let r = match des {
        "des_e" | "des_pk" => e(val).strand_serialize(),
        "des_x" => x(val).strand_serialize(),
        "des_ct" => ct(val).strand_serialize(),
        "des_schnorr" => {
            let l = list_of(val);
            Schnorr::<C> { commitment: e(&l[0]), challenge: x(&l[1]), response: x(&l[2]) }.strand_serialize()
        }
        "des_cp" => cp(val).strand_serialize(),
        "des_svec_e" => StrandVectorE::<C>(list_of(val).iter().map(e).collect()).strand_serialize(),
        "des_vec_e" => list_of(val).iter().map(e).collect::<Vec<C::E>>().strand_serialize(),
        "des_svec_x" => StrandVectorX::<C>(list_of(val).iter().map(x).collect()).strand_serialize(),
        "des_svec_c" => StrandVectorC::<C>(list_of(val).iter().map(ct).collect()).strand_serialize(),
        "des_vec_ct" => list_of(val).iter().map(ct).collect::<Vec<Ciphertext<C>>>().strand_serialize(),
        "des_svec_cp" => StrandVectorCP::<C>(list_of(val).iter().map(cp).collect()).strand_serialize(),
        "des_proof" => {
            let l = list_of(val);
            let t = list_of(&l[0]);
            let s = list_of(&l[1]);
            let nums = |v: &Val| list_of(v).iter().map(nat_of).collect::<Vec<BigUint>>();
            let pp = PlainProof {
                t: [nat_of(&t[0]), nat_of(&t[1]), nat_of(&t[2]), nat_of(&t[3]), nat_of(&t[4])],
                t_hats: nums(&t[5]),
                s: [nat_of(&s[0]), nat_of(&s[1]), nat_of(&s[2]), nat_of(&s[3])],
                s_hats: nums(&s[4]),
                s_primes: nums(&s[5]),
                cs: nums(&l[2]),
                c_hats: nums(&l[3]),
            };
            pp.to::<C>().strand_serialize()
        }
        _ => return None,
    };
    r.ok()
}

pub fn run_c13<C: NatCtx>(v: &mut Env<C>) {
    {
        let sk = v.rnd_exp();
        crate::p_c04::count_wrap_family(v, &sk);
    }
    let quick = v.h.tier == Tier::Quick;
    let tok = v.tok.clone();
    let reps = if v.small { if quick { 3 } else { 12 } } else if quick { 1 } else { 4 };
    let mut check = |v: &mut Env<C>, op: &str, bs: &[u8]| {
        let r = des_op(v, op, bs);
        v.h.check(r != Out::Panic, || format!("{} panics on {:?} ({})", op, if bs.len() > 80 { &bs[..80] } else { bs }, tok));
        // memory in proportion to the input (measured by the counting allocator; a TEST)
        let peak = v.h.last_peak;
        v.h.stat_n("alloc_peak_max_bytes_x", 0);
        v.h.check(peak <= 64 * bs.len() + (1 << 20), || format!("{} allocated {} bytes at peak for {} input bytes {:?} ({})", op, peak, bs.len(), if bs.len() > 40 { &bs[..40] } else { bs }, tok));
    };
    // fixed adversarial strings for every decoder
    let fixed: Vec<Vec<u8>> = vec![
        vec![], vec![0], vec![0, 0, 0], vec![0, 0, 0, 0], vec![1, 0, 0, 0], vec![1, 0, 0, 0, 0], vec![1, 0, 0, 0, 0, 1],
        vec![2, 0, 0, 0, 0, 1, 0, 1], vec![0xff, 0xff, 0xff, 0xff], vec![0xff, 0xff, 0xff, 0xff, 1, 2, 3],
        vec![0xff, 0xff, 0xff, 0x7f, 0], vec![0, 0, 0, 0x80], vec![1, 0, 0, 0, 0xff, 0xff, 0xff, 0xff],
        vec![1, 0, 0, 0, 4, 0, 0, 0, 0xff, 0xff, 0xff, 0xff], vec![3, 0, 0, 0, 1, 0, 0, 0, 5],
        vec![0x00, 0x00, 0x00, 0x10, 1], vec![0x10, 0, 0, 0],
    ];
    for op in DES_OPS {
        for f in &fixed {
            check(v, op, f);
        }
        for len in [1usize, 5, 9, 40] {
            let bs = v.h.rng.bytes(len);
            check(v, op, &bs);
        }
    }
    // mutated valid encodings
    for i in 0..reps {
        for w in honest_objects(v, i) {
            let nb = w.bytes.len();
            for k in 0..(if quick { 10 } else { 40 }) {
                let mut bs = w.bytes.clone();
                match k % 5 {
                    0 => {
                        let pos = v.h.rng.below_u(nb as u64) as usize;
                        bs[pos] ^= 1 << v.h.rng.below_u(8);
                    }
                    1 => bs.truncate(v.h.rng.below_u(nb as u64) as usize),
                    2 => bs.extend(v.h.rng.bytes(1 + (k % 3))),
                    3 => {
                        // tamper a length prefix: overwrite 4 bytes at a 4-aligned-ish position
                        let pos = if nb >= 4 { (v.h.rng.below_u((nb - 3) as u64)) as usize } else { 0 };
                        let vals = [0xffffffffu32, 0x7fffffff, 0x10000000, 0, 1, (nb as u32).wrapping_add(1)];
                        let x = vals[(k / 5) % vals.len()].to_le_bytes();
                        for j in 0..4.min(nb) {
                            bs[pos + j] = x[j];
                        }
                    }
                    _ => {
                        let pos = v.h.rng.below_u(nb as u64) as usize;
                        bs[pos] = 0xff;
                    }
                }
                check(v, w.des, &bs);
            }
            // cross-type confusion: feed the bytes to every decoder
            if i == 0 {
                for op in DES_OPS {
                    check(v, op, &w.bytes);
                }
            }
        }
    }
    // malachite plaintext digits out of range (F3)
    check(v, "des_p", &[1, 0, 0, 0, 0, 1]);
    check(v, "des_svec_p", &[1, 0, 0, 0, 6, 0, 0, 0, 1, 0, 0, 0, 0, 1]);
    // the shuffle verifier on decodable proofs with EVERY combination of the five vector lengths,
    // N = 0, mismatched lists, wrong generator lists: a decision, never a panic
    if v.small && (v.p == big(23) || v.p == big(7)) {
        let sk = v.rnd_exp();
        for nn in [1usize, 2] {
            let s = p_shuffle::setup(v, &sk, nn, b"c13");
            let perm: Vec<usize> = (0..nn).rev().collect();
            let Some(h) = crate::p_c04::honest_full(v, &s, nn, &perm, b"x", nn) else { continue };
            let g = v.g.clone();
            let lens: Vec<usize> = (0..=nn + 1).collect();
            let resize = |x: &[BigUint], len: usize, fill: &BigUint| -> Vec<BigUint> {
                let mut o: Vec<BigUint> = x.iter().take(len).cloned().collect();
                while o.len() < len { o.push(fill.clone()); }
                o
            };
            for &a in &lens { for &b_ in &lens { for &c in &lens { for &d in &lens { for &e in &lens {
                let mut m = h.pp.clone();
                m.cs = resize(&m.cs, a, &g);
                m.c_hats = resize(&m.c_hats, b_, &g);
                m.t_hats = resize(&m.t_hats, c, &g);
                m.s_hats = resize(&m.s_hats, d, &big(1));
                m.s_primes = resize(&m.s_primes, e, &big(1));
                let out = crate::p_c04::verify_case(v, &s, &s.gensv, &s.pkv, &m, &h.es, &h.eps, &h.label);
                let tok = v.tok.clone();
                v.h.check(out != Out::Panic, || format!("shuffle verifier panics on vector lengths cs={} c_hats={} t_hats={} s_hats={} s_primes={} on {} N={}", a, b_, c, d, e, tok, nn));
            }}}}}
            for (gens, es, eps) in [(s.gensv.clone(), vec![], vec![]), (vec![], h.es.clone(), h.eps.clone()), (s.gensv[..nn].to_vec(), h.es.clone(), h.eps.clone()), (s.gensv.clone(), h.es.clone(), h.eps[..nn - 1].to_vec()), (s.gensv.clone(), h.es[..nn - 1].to_vec(), h.eps.clone())] {
                let out = crate::p_c04::verify_case(v, &s, &gens, &s.pkv, &h.pp, &es, &eps, &h.label);
                let tok = v.tok.clone();
                v.h.check(out != Out::Panic, || format!("shuffle verifier panics on a malformed statement on {} N={}", tok, nn));
            }
        }
    }
    // sigma verifiers on arbitrary decodable proofs never panic (identity / boundary components)
    let ctx = v.ctx.clone();
    let zkp = strand::zkp::Zkp::new(&ctx);
    let q = v.q.clone();
    for t in [big(1), v.g.clone()] {
        for c in [big(0), &q - 1u32] {
            let pf = Schnorr::<C> { commitment: C::e_raw(&t), challenge: C::x_raw(&c), response: C::x_raw(&c) };
            let y = v.e(&t);
            v.h.check_nopanic("schnorr_verify", || zkp.schnorr_verify(&y, None, &pf, b"x"));
            v.h.check_nopanic("popk_verify", || zkp.encryption_popk_verify(&y, &y, &pf, b"x"));
            let cp = ChaumPedersen::<C> { commitment1: C::e_raw(&t), commitment2: C::e_raw(&t), challenge: C::x_raw(&c), response: C::x_raw(&c) };
            v.h.check_nopanic("cp_verify", || zkp.cp_verify(&y, &y, None, &y, &cp, b""));
            v.h.check_nopanic("verify_decryption", || zkp.verify_decryption(&y, &y, &y, &y, &cp, b""));
        }
    }
}

pub fn run_c14<C: NatCtx>(v: &mut Env<C>) {
    let quick = v.h.tier == Tier::Quick;
    let (p, q) = (v.p.clone(), v.q.clone());
    let ctx = v.ctx.clone();
    let tok = v.tok.clone();
    let mut one = |v: &mut Env<C>, m: &BigUint, seen: &mut std::collections::HashMap<BigUint, BigUint>| {
        let pt = C::p_raw(m);
        let ctx2 = ctx.clone();
        let r = v.case("encode", vec![n(m)], || match ctx2.encode(&pt) {
            Ok(e) => Out::Ok(Val::Nat(C::e_val(&e))),
            Err(_) => Out::Err,
        });
        let inside = *m < &q - 1u32;
        let tok = v.tok.clone();
        match &r {
            Out::Ok(Val::Nat(e)) => {
                v.h.check(inside, || format!("plaintext {:x} outside the space was encoded on {}", m, tok));
                let member = *e >= big(1) && *e < p && e.modpow(&q, &p) == big(1);
                v.h.check(member, || format!("encode({:x}) = {:x} is not a group member on {}", m, e, tok));
                let ee = C::e_raw(e);
                let ctx2 = ctx.clone();
                let d = v.case("decode", vec![n(e)], || Out::Ok(Val::Nat(C::p_val(&ctx2.decode(&ee)))));
                v.h.check(d == Out::Ok(n(m)), || format!("decode(encode({:x})) != {:x} on {}", m, m, tok));
                if let Some(prev) = seen.insert(e.clone(), m.clone()) {
                    v.h.check(prev == *m, || format!("plaintexts {:x} and {:x} encode to the same element on {}", prev, m, tok));
                }
                // survives serialisation
                let bytes = C::e_raw(e).strand_serialize().unwrap();
                let back = C::E::strand_deserialize(&bytes);
                v.h.check(matches!(&back, Ok(x) if C::e_val(x) == *e), || format!("encode({:x}) does not survive serialisation on {}", m, tok));
            }
            Out::Err => v.h.check(!inside, || format!("plaintext {:x} inside the space was refused on {}", m, tok)),
            _ => v.h.check(false, || format!("encode({:x}) panicked on {}", m, tok)),
        }
    };
    let mut seen = std::collections::HashMap::new();
    if v.small {
        let qn = q.to_u64_digits()[0];
        v.h.exhaustive_notes.push(format!("{}: all plaintexts 0..q+2", tok));
        for m in 0..=qn + 2 {
            one(v, &big(m), &mut seen);
        }
        one(v, &p, &mut seen);
        // random plaintexts are inside the space (live draws; histogram on the implementation)
        let draws = if quick { 2000 } else { 100000 };
        let mut hist = vec![0u32; (qn + 2) as usize];
        let mut bad = None;
        for _ in 0..draws {
            let m = C::p_val(&ctx.rnd_plaintext());
            match m.to_u64_digits().first().copied().unwrap_or(0) {
                x if x < qn - 1 && m < big(qn) => hist[x as usize] += 1,
                _ => bad = Some(m),
            }
        }
        v.h.check(bad.is_none(), || format!("rnd_plaintext returned {:x}, outside the plaintext space 0..q-2, on {}", bad.clone().unwrap(), tok));
        if draws as u64 >= 200 * qn {
            let missing = (0..(qn - 1) as usize).filter(|i| hist[*i] == 0).count();
            v.h.check(missing == 0, || format!("rnd_plaintext never produced {} of the {} plaintexts in {} draws on {}", missing, qn - 1, draws, tok));
        }
        for _ in 0..(if quick { 200 } else { 5000 }) {
            let r = std::panic::catch_unwind(std::panic::AssertUnwindSafe(|| ctx.rnd()));
            v.h.check(r.is_ok(), || format!("rnd() panicked on {}", tok));
        }
    } else {
        let mut ms = vec![big(0), big(1), &q - 3u32, &q - 2u32, &q - 1u32, q.clone(), &q + 1u32, p.clone(), big(2).pow(2048)];
        for _ in 0..(if quick { 6 } else { 80 }) {
            ms.push(v.h.rng.below(&(&q - 1u32)));
        }
        ms.extend(crate::ctxs::structured_values(&p, &mut v.h.rng, 1, if quick { 5 } else { 1 }));
        for m in &ms {
            one(v, m, &mut seen);
        }
        for _ in 0..(if quick { 3 } else { 50 }) {
            let m = C::p_val(&ctx.rnd_plaintext());
            v.h.check(m < &q - 1u32, || format!("rnd_plaintext outside the space on {}", tok));
        }
    }
}
