//! Per-context environment with conversion helpers.
use crate::core::*;
use crate::ctxs::NatCtx;
use crate::val::*;
use num_bigint::BigUint;
use num_traits::One;
use strand::elgamal::Ciphertext;
use strand::zkp::{ChaumPedersen, Schnorr};

pub struct Env<'a, C: NatCtx> {
    pub h: &'a mut Harness,
    pub ctx: C,
    pub tok: String,
    pub p: BigUint,
    pub q: BigUint,
    pub g: BigUint,
    pub small: bool,
}

impl<'a, C: NatCtx> Env<'a, C> {
    pub fn new(h: &'a mut Harness, ctx: C, builtin: bool) -> Env<'a, C> {
        let (p, q, g) = ctx.pqg();
        let tok = tok_of(&ctx, builtin);
        let small = p.bits() <= 16;
        Env { h, ctx, tok, p, q, g, small }
    }
    pub fn e(&self, n: &BigUint) -> C::E {
        C::e_raw(n)
    }
    pub fn x(&self, n: &BigUint) -> C::X {
        C::x_raw(n)
    }
    pub fn ve(&self, e: &C::E) -> Val {
        Val::Nat(C::e_val(e))
    }
    pub fn vx(&self, x: &C::X) -> Val {
        Val::Nat(C::x_val(x))
    }
    pub fn vct(&self, c: &Ciphertext<C>) -> Val {
        l(vec![self.ve(&c.mhr), self.ve(&c.gr)])
    }
    pub fn ct(&self, mhr: &BigUint, gr: &BigUint) -> Ciphertext<C> {
        Ciphertext { mhr: self.e(mhr), gr: self.e(gr) }
    }
    pub fn vschnorr(&self, p: &Schnorr<C>) -> Val {
        l(vec![self.ve(&p.commitment), self.vx(&p.challenge), self.vx(&p.response)])
    }
    pub fn vcp(&self, p: &ChaumPedersen<C>) -> Val {
        l(vec![
            self.ve(&p.commitment1),
            self.ve(&p.commitment2),
            self.vx(&p.challenge),
            self.vx(&p.response),
        ])
    }
    pub fn case(&mut self, op: &str, args: Vec<Val>, f: impl FnOnce() -> Out) -> Out {
        let tok = self.tok.clone();
        self.h.case(&tok, op, args, f)
    }
    /// random member of the subgroup: g^k
    pub fn rnd_member(&mut self) -> BigUint {
        let k = self.h.rng.below(&self.q);
        self.g.modpow(&k, &self.p)
    }
    pub fn rnd_exp(&mut self) -> BigUint {
        self.h.rng.below(&self.q)
    }
    /// boundary + random exponents
    pub fn exps(&mut self, n_random: usize) -> Vec<BigUint> {
        let mut v = vec![big(0), big(1), &self.q - 1u32];
        if self.q > big(4) {
            v.push(big(2));
            v.push(&self.q - 2u32);
        }
        for _ in 0..n_random {
            let x = self.rnd_exp();
            v.push(x);
        }
        v
    }
    /// boundary + random members
    pub fn members(&mut self, n_random: usize) -> Vec<BigUint> {
        let mut v = vec![BigUint::one(), self.g.clone(), self.g.modpow(&(&self.q - 1u32), &self.p)];
        for _ in 0..n_random {
            let x = self.rnd_member();
            v.push(x);
        }
        v
    }
    pub fn label(&mut self, i: usize) -> Vec<u8> {
        match i % 4 {
            0 => vec![],
            1 => vec![0x61],
            2 => self.h.rng.bytes(7),
            _ => self.h.rng.bytes(300),
        }
    }
}
