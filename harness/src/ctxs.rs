//! Uniform access to the two multiplicative back-ends on any parameter set.
use malachite::num::conversion::traits::{Digits, FromStringBase};
use malachite::Natural;
use num_bigint::BigUint;
use num_traits::Num;
use strand::backend::malachite as mal;
use strand::backend::num_bigint as nb;
use strand::context::Ctx;

pub fn nat_to_big(n: &Natural) -> BigUint {
    let ds: Vec<u8> = n.to_digits_desc(&256u16).into_iter().map(|d| d as u8).collect();
    BigUint::from_bytes_be(&ds)
}
pub fn big_to_nat(b: &BigUint) -> Natural {
    mal::verif::natural_from_be(&b.to_bytes_be())
}

pub trait NatCtx: Ctx + Eq + 'static {
    fn kind() -> char;
    fn e_raw(n: &BigUint) -> Self::E;
    fn x_raw(n: &BigUint) -> Self::X;
    fn p_raw(n: &BigUint) -> Self::P;
    fn e_val(e: &Self::E) -> BigUint;
    fn x_val(x: &Self::X) -> BigUint;
    fn p_val(p: &Self::P) -> BigUint;
    /// (p, q, g)
    fn pqg(&self) -> (BigUint, BigUint, BigUint);
    fn hash_to_element(&self, bytes: &[u8]) -> BigUint;
    /// `element_from_string_radix`
    fn e_from_str(&self, s: &str, radix: u32) -> Result<Self::E, strand::util::StrandError>;
    /// `to_string_radix` of an element / an exponent
    fn e_to_str(e: &Self::E, radix: u32) -> String;
    fn x_to_str(x: &Self::X, radix: u32) -> String;
}

impl<P: nb::BigintCtxParams + 'static> NatCtx for nb::BigintCtx<P> {
    fn kind() -> char {
        'B'
    }
    fn e_raw(n: &BigUint) -> Self::E {
        nb::verif::element_raw(n.clone())
    }
    fn x_raw(n: &BigUint) -> Self::X {
        nb::verif::exponent_raw(n.clone())
    }
    fn p_raw(n: &BigUint) -> Self::P {
        nb::verif::plaintext_raw(n.clone())
    }
    fn e_val(e: &Self::E) -> BigUint {
        nb::verif::element_value(e).clone()
    }
    fn x_val(x: &Self::X) -> BigUint {
        nb::verif::exponent_value(x).clone()
    }
    fn p_val(p: &Self::P) -> BigUint {
        nb::verif::plaintext_value(p).clone()
    }
    fn pqg(&self) -> (BigUint, BigUint, BigUint) {
        let (p, q, g, _) = nb::verif::params_of(self);
        (p.clone(), q.clone(), g.clone())
    }
    fn hash_to_element(&self, bytes: &[u8]) -> BigUint {
        nb::verif::hash_to_element(self, bytes)
    }
    fn e_from_str(&self, s: &str, radix: u32) -> Result<Self::E, strand::util::StrandError> {
        self.element_from_string_radix(s, radix)
    }
    fn e_to_str(e: &Self::E, radix: u32) -> String {
        e.to_string_radix(radix)
    }
    fn x_to_str(x: &Self::X, radix: u32) -> String {
        x.to_string_radix(radix)
    }
}

impl<P: mal::MalachiteCtxParams + 'static> NatCtx for mal::MalachiteCtx<P> {
    fn kind() -> char {
        'M'
    }
    fn e_raw(n: &BigUint) -> Self::E {
        mal::verif::element_raw(big_to_nat(n))
    }
    fn x_raw(n: &BigUint) -> Self::X {
        mal::verif::exponent_raw(big_to_nat(n))
    }
    fn p_raw(n: &BigUint) -> Self::P {
        mal::verif::plaintext_raw(big_to_nat(n))
    }
    fn e_val(e: &Self::E) -> BigUint {
        nat_to_big(mal::verif::element_value(e))
    }
    fn x_val(x: &Self::X) -> BigUint {
        nat_to_big(mal::verif::exponent_value(x))
    }
    fn p_val(p: &Self::P) -> BigUint {
        nat_to_big(mal::verif::plaintext_value(p))
    }
    fn pqg(&self) -> (BigUint, BigUint, BigUint) {
        let (p, q, g, _) = mal::verif::params_of(self);
        (nat_to_big(p), nat_to_big(q), nat_to_big(g))
    }
    fn hash_to_element(&self, bytes: &[u8]) -> BigUint {
        nat_to_big(&mal::verif::hash_to_element(self, bytes))
    }
    fn e_from_str(&self, s: &str, radix: u32) -> Result<Self::E, strand::util::StrandError> {
        self.element_from_string_radix(s, radix as u8)
    }
    fn e_to_str(e: &Self::E, radix: u32) -> String {
        e.to_string_radix(radix as u8)
    }
    fn x_to_str(x: &Self::X, radix: u32) -> String {
        x.to_string_radix(radix as u8)
    }
}

#[allow(dead_code)]
pub fn parse_dec(s: &str) -> BigUint {
    BigUint::from_str_radix(s, 10).unwrap()
}
#[allow(dead_code)]
pub fn nat_dec(s: &str) -> Natural {
    Natural::from_string_base(10, s).unwrap()
}

/// small safe-prime parameter sets (p, q, g): g = 4 is a square, hence of order q
pub const SMALL_SETS: &[(u64, u64, u64)] = &[
    (7, 3, 2),
    (11, 5, 4),
    (23, 11, 2),
    (47, 23, 4),
    (59, 29, 4),
    (83, 41, 3),
    (107, 53, 4),
    (167, 83, 4),
    (179, 89, 4),
    (227, 113, 4),
    (263, 131, 4),
];
pub const SET62: (u64, u64, u64) = (2305843009213699919, 1152921504606849959, 4);
