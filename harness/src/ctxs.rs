//! Uniform access to the two multiplicative back-ends on any parameter set.
use malachite::num::conversion::traits::{Digits, FromStringBase};
use malachite::Natural;
use num_bigint::BigUint;
use num_traits::Num;
use strand::backend::malachite as mal;
use strand::backend::num_bigint as nb;
use strand::context::Ctx;

pub fn nat_to_big(n: &Natural) -> BigUint {
    let ds: Vec<u8> = n.to_digits_desc(&256u16).into_iter().map(|d| d as u8).collect();
    BigUint::from_bytes_be(&ds)
}
pub fn big_to_nat(b: &BigUint) -> Natural {
    mal::verif::natural_from_be(&b.to_bytes_be())
}

pub trait NatCtx: Ctx + Eq + 'static {
    fn kind() -> char;
    fn e_raw(n: &BigUint) -> Self::E;
    fn x_raw(n: &BigUint) -> Self::X;
    fn p_raw(n: &BigUint) -> Self::P;
    fn e_val(e: &Self::E) -> BigUint;
    fn x_val(x: &Self::X) -> BigUint;
    fn p_val(p: &Self::P) -> BigUint;
    /// (p, q, g)
    fn pqg(&self) -> (BigUint, BigUint, BigUint);
    fn hash_to_element(&self, bytes: &[u8]) -> BigUint;
    /// `element_from_string_radix`
    fn e_from_str(&self, s: &str, radix: u32) -> Result<Self::E, strand::util::StrandError>;
    /// `to_string_radix` of an element / an exponent
    fn e_to_str(e: &Self::E, radix: u32) -> String;
    fn x_to_str(x: &Self::X, radix: u32) -> String;
}

impl<P: nb::BigintCtxParams + 'static> NatCtx for nb::BigintCtx<P> {
    fn kind() -> char {
        'B'
    }
    fn e_raw(n: &BigUint) -> Self::E {
        nb::verif::element_raw(n.clone())
    }
    fn x_raw(n: &BigUint) -> Self::X {
        nb::verif::exponent_raw(n.clone())
    }
    fn p_raw(n: &BigUint) -> Self::P {
        nb::verif::plaintext_raw(n.clone())
    }
    fn e_val(e: &Self::E) -> BigUint {
        nb::verif::element_value(e).clone()
    }
    fn x_val(x: &Self::X) -> BigUint {
        nb::verif::exponent_value(x).clone()
    }
    fn p_val(p: &Self::P) -> BigUint {
        nb::verif::plaintext_value(p).clone()
    }
    fn pqg(&self) -> (BigUint, BigUint, BigUint) {
        let (p, q, g, _) = nb::verif::params_of(self);
        (p.clone(), q.clone(), g.clone())
    }
    fn hash_to_element(&self, bytes: &[u8]) -> BigUint {
        nb::verif::hash_to_element(self, bytes)
    }
    fn e_from_str(&self, s: &str, radix: u32) -> Result<Self::E, strand::util::StrandError> {
        self.element_from_string_radix(s, radix)
    }
    fn e_to_str(e: &Self::E, radix: u32) -> String {
        e.to_string_radix(radix)
    }
    fn x_to_str(x: &Self::X, radix: u32) -> String {
        x.to_string_radix(radix)
    }
}

impl<P: mal::MalachiteCtxParams + 'static> NatCtx for mal::MalachiteCtx<P> {
    fn kind() -> char {
        'M'
    }
    fn e_raw(n: &BigUint) -> Self::E {
        mal::verif::element_raw(big_to_nat(n))
    }
    fn x_raw(n: &BigUint) -> Self::X {
        mal::verif::exponent_raw(big_to_nat(n))
    }
    fn p_raw(n: &BigUint) -> Self::P {
        mal::verif::plaintext_raw(big_to_nat(n))
    }
    fn e_val(e: &Self::E) -> BigUint {
        nat_to_big(mal::verif::element_value(e))
    }
    fn x_val(x: &Self::X) -> BigUint {
        nat_to_big(mal::verif::exponent_value(x))
    }
    fn p_val(p: &Self::P) -> BigUint {
        nat_to_big(mal::verif::plaintext_value(p))
    }
    fn pqg(&self) -> (BigUint, BigUint, BigUint) {
        let (p, q, g, _) = mal::verif::params_of(self);
        (nat_to_big(p), nat_to_big(q), nat_to_big(g))
    }
    fn hash_to_element(&self, bytes: &[u8]) -> BigUint {
        nat_to_big(&mal::verif::hash_to_element(self, bytes))
    }
    fn e_from_str(&self, s: &str, radix: u32) -> Result<Self::E, strand::util::StrandError> {
        self.element_from_string_radix(s, radix as u8)
    }
    fn e_to_str(e: &Self::E, radix: u32) -> String {
        e.to_string_radix(radix as u8)
    }
    fn x_to_str(x: &Self::X, radix: u32) -> String {
        x.to_string_radix(radix as u8)
    }
}

#[allow(dead_code)]
pub fn parse_dec(s: &str) -> BigUint {
    BigUint::from_str_radix(s, 10).unwrap()
}
#[allow(dead_code)]
pub fn nat_dec(s: &str) -> Natural {
    Natural::from_string_base(10, s).unwrap()
}

/// small safe-prime parameter sets (p, q, g): g = 4 is a square, hence of order q
pub const SMALL_SETS: &[(u64, u64, u64)] = &[
    (7, 3, 2),
    (11, 5, 4),
    (23, 11, 2),
    (47, 23, 4),
    (59, 29, 4),
    (83, 41, 3),
    (107, 53, 4),
    (167, 83, 4),
    (179, 89, 4),
    (227, 113, 4),
    (263, 131, 4),
];
pub const SET62: (u64, u64, u64) = (2305843009213699919, 1152921504606849959, 4);
/// mid-size safe-prime sets (p, q, g) with 130 and 256 bits (3 limbs with a nearly empty top limb; 4 full
/// limbs): limb counts between the 62-bit and the 2048-bit sets.  q - 1 is smooth, so the primality
/// certificates in lean/StrandModel/Lemmas/PrattCerts.lean are short (Props/ParamSets.lean: S130, S256).
pub const MID_SETS: &[(&str, &str, &str)] = &[
    ("1096684572681074249423426611232341077287", "548342286340537124711713305616170538643", "4"),
    ("105471767675930315612036171777931760705188871995060243858521972678074607394647", "52735883837965157806018085888965880352594435997530121929260986339037303697323", "4"),
];

/// Integers with a special machine representation (never hit by uniform sampling, never present in toy
/// groups): zero limbs at the low / middle / high end, single bits, all-ones runs, every byte length,
/// neighbours of limb boundaries, and the same below `p`.  All returned values are < 2p.
pub fn structured_values(p: &BigUint, rng: &mut crate::core::SplitMix, per_len: usize, len_step: usize) -> Vec<BigUint> {
    let one = BigUint::from(1u32);
    let mut out: Vec<BigUint> = vec![];
    let bits = p.bits();
    // k * 2^(64 j): low limbs zero
    for j in [1u64, 2, 3, 4, 15, 16, 17, 31] {
        for k in [1u64, 2, 3, 5, 7, 18, 22, 26, 30, 1 << 31, (1 << 32) + 1, u64::MAX] {
            out.push(BigUint::from(k) << (64 * j));
            out.push((BigUint::from(k) << (64 * j)) - 1u32); // all-ones low limbs; +1 has zero low limbs (encode adds 1)
            out.push((BigUint::from(k) << (64 * j)) + (BigUint::from(k) << (64 * (j + 1))));
        }
        out.push(rng.below(&(&one << 64u32)) << (64 * j)); // random limb, zero below
        out.push((rng.below(&(&one << 128u32)) << (64 * (j + 1))) + rng.below(&(&one << 64u32))); // zero limb in the middle
    }
    // single bits, all-ones, and their neighbours
    for e in [0u64, 1, 7, 8, 9, 15, 16, 31, 32, 33, 63, 64, 65, 127, 128, 129, 255, 256, 511, 512, 1023, 1024, 2039, 2040, 2041, 2047, 2048] {
        if e <= bits {
            let t = &one << e;
            out.push(t.clone());
            out.push(&t - 1u32);
            out.push(&t + 1u32);
            if &t < p {
                out.push(p - &t);
                out.push(p - &t - 1u32);
            }
        }
    }
    // every byte length 1..: top byte 1 / 0xff / random, random body; and with a zero tail
    let max_len = ((bits + 7) / 8) as usize;
    for len in (1..=max_len).filter(|l| l % len_step == 1 % len_step || *l + 2 > max_len) {
        for k in 0..per_len {
            let mut bs = rng.bytes(len);
            bs[0] = match k % 3 { 0 => 1, 1 => 0xff, _ => bs[0] | 1 };
            out.push(BigUint::from_bytes_be(&bs));
            if len > 9 && k == 0 {
                for b in bs.iter_mut().skip(len - 8) { *b = 0; }
                out.push(BigUint::from_bytes_be(&bs));
            }
        }
    }
    let two_p = p * 2u32;
    out.retain(|x| *x < two_p);
    out.sort();
    out.dedup();
    out
}
