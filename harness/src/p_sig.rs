//! Stream and property evaluators for the Ed25519 front-ends (ctx token SIG, property C20);
//! protocol: lean/PROTOCOL_R255.md.  src/signature.rs = ed25519-zebra, src/signature2.rs =
//! ed25519-dalek.  base64 is exercised through strand's `String` conversions (the harness has no
//! direct base64 dependency): `b64dec` cases are recorded only when the library's answer is
//! fully observed, i.e. `Ok(bytes)` or `Err(StrandError::DecodingError)`.
use crate::core::*;
use crate::val::*;
use curve25519_dalek::constants;
use curve25519_dalek::edwards::EdwardsPoint;
use curve25519_dalek::scalar::Scalar;
use num_bigint::BigUint;
use strand::backend::ristretto::RistrettoCtx;
use strand::context::Ctx;
use strand::serialization::*;
use strand::signature as z;
use strand::signature2 as d;
use strand::util::StrandError;

const TOK: &str = "SIG";
const ALPHABET: &[u8; 64] = b"ABCDEFGHIJKLMNOPQRSTUVWXYZabcdefghijklmnopqrstuvwxyz0123456789+/";

fn t() -> Out {
    Out::Ok(Val::Bool(true))
}

fn vz(pk: &[u8], sig: &[u8], msg: &[u8]) -> Out {
    match (z::StrandSignaturePk::strand_deserialize(pk), z::StrandSignature::strand_deserialize(sig)) {
        (Ok(pk), Ok(sig)) => Out::Ok(Val::Bool(pk.verify(&sig, msg).is_ok())),
        _ => Out::Ok(Val::Bool(false)),
    }
}
fn vd(pk: &[u8], sig: &[u8], msg: &[u8]) -> Out {
    match (d::StrandSignaturePk::strand_deserialize(pk), d::StrandSignature::strand_deserialize(sig)) {
        (Ok(pk), Ok(sig)) => Out::Ok(Val::Bool(pk.verify(&sig, msg).is_ok())),
        _ => Out::Ok(Val::Bool(false)),
    }
}
/// both verdicts, recorded as correspondence cases
fn both(h: &mut Harness, pk: &[u8], sig: &[u8], msg: &[u8]) -> (Out, Out) {
    let a = h.case(TOK, "ed_verify_z", vec![b(pk), b(sig), b(msg)], || vz(pk, sig, msg));
    let c = h.case(TOK, "ed_verify_d", vec![b(pk), b(sig), b(msg)], || vd(pk, sig, msg));
    (a, c)
}
/// both verdicts must be "rejected"
fn both_rejected(h: &mut Harness, what: &str, pk: &[u8], sig: &[u8], msg: &[u8]) {
    let (a, c) = both(h, pk, sig, msg);
    h.check(a != t() && a != Out::Panic, || format!("zebra accepts {} (pk {:02x?} sig {:02x?} msg {:02x?})", what, pk, sig, msg));
    h.check(c != t() && c != Out::Panic, || format!("dalek accepts {} (pk {:02x?} sig {:02x?} msg {:02x?})", what, pk, sig, msg));
}
fn ser<T: StrandSerialize>(x: Result<T, StrandError>) -> Out {
    match x {
        Ok(v) => Out::Ok(b(&v.strand_serialize().unwrap())),
        Err(_) => Out::Err,
    }
}
/// the six byte-level decoders on one input; returns the six answers
fn des_all(h: &mut Harness, bs: &[u8]) -> Vec<Out> {
    vec![
        h.case(TOK, "des_sigpk_z", vec![b(bs)], || ser(z::StrandSignaturePk::strand_deserialize(bs))),
        h.case(TOK, "des_sigpk_d", vec![b(bs)], || ser(d::StrandSignaturePk::strand_deserialize(bs))),
        h.case(TOK, "des_sigsk_z", vec![b(bs)], || ser(z::StrandSignatureSk::strand_deserialize(bs))),
        h.case(TOK, "des_sigsk_d", vec![b(bs)], || ser(d::StrandSignatureSk::strand_deserialize(bs))),
        h.case(TOK, "des_sig_z", vec![b(bs)], || ser(z::StrandSignature::strand_deserialize(bs))),
        h.case(TOK, "des_sig_d", vec![b(bs)], || ser(d::StrandSignature::strand_deserialize(bs))),
    ]
}

/// SHA-512 of the concatenation, wide-reduced mod l (Scalar::from_hash), via the library
fn hs(parts: &[&[u8]]) -> Scalar {
    let x = RistrettoCtx.hash_to_exp(&parts.concat());
    let mut le = [0u8; 32];
    le.copy_from_slice(&x.strand_serialize().unwrap());
    Option::<Scalar>::from(Scalar::from_canonical_bytes(le)).unwrap()
}
fn scalar_of(n: &BigUint) -> Scalar {
    let mut le = n.to_bytes_le();
    le.resize(32, 0);
    let mut a = [0u8; 32];
    a.copy_from_slice(&le);
    Scalar::from_bytes_mod_order(a)
}

/// the 14 encodings of the 8 small-order points (8 canonical, 6 non-canonical)
fn torsion_encodings() -> Vec<[u8; 32]> {
    let mut v: Vec<[u8; 32]> = constants::EIGHT_TORSION.iter().map(|p| p.compress().to_bytes()).collect();
    let le = |n: &BigUint, sign: bool| {
        let mut x = n.to_bytes_le();
        x.resize(32, 0);
        let mut a = [0u8; 32];
        a.copy_from_slice(&x);
        if sign {
            a[31] |= 0x80;
        }
        a
    };
    let p = (BigUint::from(1u32) << 255) - 19u32;
    v.push(le(&big(1), true)); // identity, "negative zero"
    v.push(le(&(&p - 1u32), true)); // (0,-1), "negative zero"
    v.push(le(&p, false)); // y = p ~ 0
    v.push(le(&p, true));
    v.push(le(&(&p + 1u32), false)); // y = p+1 ~ 1
    v.push(le(&(&p + 1u32), true));
    v
}

/// reference encoder (test-input generator only; never used as an expected answer)
fn ref_b64(bs: &[u8]) -> Vec<u8> {
    let mut out = vec![];
    for ch in bs.chunks(3) {
        let n = (ch[0] as u32) << 16 | (*ch.get(1).unwrap_or(&0) as u32) << 8 | *ch.get(2).unwrap_or(&0) as u32;
        for k in 0..(ch.len() + 1) {
            out.push(ALPHABET[((n >> (18 - 6 * k)) & 63) as usize]);
        }
    }
    out
}

/// base64 decoding as observed through the library: `Some(Ok(bytes))`, `Some(Err)` for a
/// base64 error, `None` when the string is valid base64 of a length no strand type accepts
/// (the decoded bytes are then not observable) or is not UTF-8.
fn lib_b64dec(s: &[u8]) -> Option<Out> {
    let st = String::from_utf8(s.to_vec()).ok()?;
    let sk: Result<z::StrandSignatureSk, StrandError> = st.clone().try_into();
    match sk {
        Ok(k) => return Some(Out::Ok(b(&k.strand_serialize().unwrap()))),
        Err(StrandError::DecodingError(_)) => return Some(Out::Err),
        Err(_) => {}
    }
    let sg: Result<z::StrandSignature, StrandError> = st.try_into();
    match sg {
        Ok(k) => Some(Out::Ok(b(&k.strand_serialize().unwrap()))),
        Err(StrandError::DecodingError(_)) => Some(Out::Err),
        Err(_) => None,
    }
}
fn b64dec_case(h: &mut Harness, s: &[u8]) -> Option<Out> {
    let r = lib_b64dec(s)?;
    let r2 = r.clone();
    Some(h.case(TOK, "b64dec", vec![b(s)], move || r2))
}

fn base64_stream(h: &mut Harness) {
    let quick = h.tier == Tier::Quick;
    // encoding: 32-byte (remainder 2) and 64-byte (remainder 1) inputs through the key / signature types
    for i in 0..(if quick { 6 } else { 60 }) {
        let mut k = h.rng.bytes(32);
        let mut s = h.rng.bytes(64);
        if i == 0 {
            k = vec![0; 32];
            s = vec![0xff; 64];
        }
        if i == 1 {
            k = vec![0xff; 32];
            s = vec![0; 64];
        }
        let ks: String = z::StrandSignatureSk::strand_deserialize(&k).unwrap().try_into().unwrap();
        let ks2: String = d::StrandSignatureSk::strand_deserialize(&k).unwrap().try_into().unwrap();
        let ss: String = z::StrandSignature::strand_deserialize(&s).unwrap().try_into().unwrap();
        let ss2: String = d::StrandSignature::strand_deserialize(&s).unwrap().try_into().unwrap();
        h.check(ks == ks2 && ss == ss2, || "the two front-ends print different base64 strings".to_string());
        h.case(TOK, "b64enc", vec![b(&k)], || Out::Ok(b(ks.as_bytes())));
        h.case(TOK, "b64enc", vec![b(&s)], || Out::Ok(b(ss.as_bytes())));
        for (st, bytes) in [(&ks, &k), (&ss, &s)] {
            let out = b64dec_case(h, st.as_bytes());
            h.check(out == Some(Out::Ok(b(bytes))), || format!("base64 round trip fails for {:02x?}", bytes));
            h.check(ref_b64(bytes) == st.as_bytes(), || "library base64 differs from RFC 4648".to_string());
        }
    }
    // decoding: mutations of valid strings of every length class
    let lens: Vec<usize> = if quick { vec![0, 1, 2, 3, 5, 6, 7, 8, 23, 24, 25, 31, 32, 33, 64] } else { (0..70).collect() };
    for len in lens {
        let bs = h.rng.bytes(len);
        let eb = ref_b64(&bs);
        let mut cands: Vec<Vec<u8>> = vec![eb.clone()];
        for pad in ["=", "==", "===", "===="] {
            let mut x = eb.clone();
            x.extend(pad.as_bytes());
            cands.push(x);
        }
        if !eb.is_empty() {
            let reps: &[u8] = if quick { b"=-_ \n\x00B/9Qgw" } else { b"=-_ \n\x00\x7fB/+9zQgwAEIMUYcko048" };
            for &rep in reps {
                let n = eb.len();
                let mut x = eb.clone();
                x[n - 1] = rep;
                cands.push(x);
                let mut x = eb.clone();
                let pos = h.rng.below_u(n as u64) as usize;
                x[pos] = rep;
                cands.push(x);
            }
            let mut x = eb.clone();
            x.pop();
            cands.push(x);
            for suffix in [&b"A"[..], b"B", b"AA", b"A=", b"\n"] {
                let mut x = eb.clone();
                x.extend(suffix);
                cands.push(x);
            }
            let mut x = eb.clone();
            x.insert(0, b'=');
            cands.push(x);
        }
        for c in cands {
            let out = b64dec_case(h, &c);
            // whatever is accepted must be canonical: re-encoding gives the input back
            if let Some(Out::Ok(Val::Bytes(v))) = &out {
                h.check(ref_b64(v) == c, || format!("non-canonical base64 {:?} accepted", String::from_utf8_lossy(&c)));
            }
            if c.contains(&b'=') || c.len() % 4 == 1 {
                h.check(out == Some(Out::Err), || format!("malformed base64 {:?} not rejected as such", String::from_utf8_lossy(&c)));
            }
        }
    }
    // random symbol strings of the two observable lengths (43 -> 32 bytes, 86 -> 64 bytes):
    // 3 in 4 resp. 15 in 16 have non-zero trailing bits
    for i in 0..(if quick { 60 } else { 600 }) {
        let len = if i % 2 == 0 { 43 } else { 86 };
        let s: Vec<u8> = (0..len).map(|_| ALPHABET[h.rng.below_u(64) as usize]).collect();
        let out = b64dec_case(h, &s);
        if let Some(Out::Ok(Val::Bytes(v))) = &out {
            h.check(ref_b64(v) == s, || "non-canonical trailing bits accepted".to_string());
        }
    }
}

fn honest(h: &mut Harness) {
    let quick = h.tier == Tier::Quick;
    let l = crate::p_curve::ell();
    let n = if quick { 10 } else { 150 };
    for i in 0..n {
        let mut seed = h.rng.bytes(32);
        if i == 0 {
            seed = vec![0; 32];
        }
        if i == 1 {
            seed = vec![0xff; 32];
        }
        let msg = h.rng.bytes((i * 7) % 260);
        // keys through bytes
        let skz = z::StrandSignatureSk::strand_deserialize(&seed).unwrap();
        let skd = d::StrandSignatureSk::strand_deserialize(&seed).unwrap();
        h.check(skz.strand_serialize().unwrap() == seed && skd.strand_serialize().unwrap() == seed, || "signing key does not round-trip through bytes".to_string());
        let pkz_o = z::StrandSignaturePk::from(&skz);
        let pkd_o = d::StrandSignaturePk::from(&skd);
        let pkz = pkz_o.strand_serialize().unwrap();
        let pkd = pkd_o.strand_serialize().unwrap();
        h.check(pkz == pkd, || format!("zebra and dalek public keys differ for seed {:02x?}", seed));
        h.case(TOK, "ed_pk", vec![b(&seed)], || Out::Ok(b(&pkz)));
        // signatures: identical on both front-ends, deterministic
        let sig_z = skz.sign(&msg);
        let sig_d = skd.sign(&msg);
        let sz = sig_z.strand_serialize().unwrap();
        let sd = sig_d.strand_serialize().unwrap();
        h.check(sz == sd, || format!("zebra and dalek signatures differ for seed {:02x?}", seed));
        h.check(skz.sign(&msg).strand_serialize().unwrap() == sz, || "signing is not deterministic".to_string());
        h.case(TOK, "ed_sign", vec![b(&seed), b(&msg)], || Out::Ok(b(&sz)));
        // in-memory verification, both front-ends
        h.check(pkz_o.verify(&sig_z, &msg).is_ok(), || "zebra rejects its own signature".to_string());
        h.check(pkd_o.verify(&sig_d, &msg).is_ok(), || "dalek rejects its own signature".to_string());
        // through bytes, straight and cross-wise (zebra's signature under dalek's key and vice versa)
        let (a, c) = both(h, &pkz, &sz, &msg);
        h.check(a == t() && c == t(), || format!("honest signature rejected after byte round trip (seed {:02x?})", seed));
        h.check(vd(&pkz, &sz, &msg) == t() && vz(&pkd, &sd, &msg) == t(), || "cross-wise verification fails".to_string());
        let outs = des_all(h, &pkz);
        h.check(outs[0] == Out::Ok(b(&pkz)) && outs[1] == Out::Ok(b(&pkz)), || "public key does not round-trip through bytes".to_string());
        let outs = des_all(h, &sz);
        h.check(outs[4] == Out::Ok(b(&sz)) && outs[5] == Out::Ok(b(&sz)), || "signature does not round-trip through bytes".to_string());
        // through base64 strings
        let pks: String = pkz_o.clone().try_into().unwrap();
        let pks_d: String = pkd_o.clone().try_into().unwrap();
        let sgs: String = sig_z.clone().try_into().unwrap();
        let sgs_d: String = sig_d.clone().try_into().unwrap();
        let sks: String = skz.clone().try_into().unwrap();
        h.check(pks == pks_d && sgs == sgs_d, || "the two front-ends print different strings".to_string());
        let back_pk_z: Result<z::StrandSignaturePk, _> = pks.clone().try_into();
        let back_pk_d: Result<d::StrandSignaturePk, _> = pks.clone().try_into();
        let back_sg_z: Result<z::StrandSignature, _> = sgs.clone().try_into();
        let back_sg_d: Result<d::StrandSignature, _> = sgs.clone().try_into();
        let back_sk_d: Result<d::StrandSignatureSk, _> = sks.clone().try_into();
        match (back_pk_z, back_pk_d, back_sg_z, back_sg_d, back_sk_d) {
            (Ok(pz), Ok(pd), Ok(gz), Ok(gd), Ok(kd)) => {
                h.check(pz == pkz_o && pd == pkd_o, || "public key changes through its string form".to_string());
                h.check(pz.verify(&gz, &msg).is_ok() && pd.verify(&gd, &msg).is_ok(), || "signature rejected after string round trip".to_string());
                h.check(kd.sign(&msg).strand_serialize().unwrap() == sz, || "signing key changes through its string form".to_string());
            }
            _ => h.check(false, || "string round trip of key / signature fails".to_string()),
        }
        b64dec_case(h, sgs.as_bytes());
        b64dec_case(h, sks.as_bytes());
        // a different message, and every kind of single-bit flip
        let mut m2 = msg.clone();
        m2.push(1);
        both_rejected(h, "an extended message", &pkz, &sz, &m2);
        if !msg.is_empty() {
            both_rejected(h, "a truncated message", &pkz, &sz, &msg[..msg.len() - 1]);
        }
        let flips = if quick { 2 } else { 3 };
        for _ in 0..flips {
            if !msg.is_empty() {
                let mut m3 = msg.clone();
                let pos = h.rng.below_u(msg.len() as u64) as usize;
                m3[pos] ^= 1 << h.rng.below_u(8);
                both_rejected(h, "a message with one flipped bit", &pkz, &sz, &m3);
            }
            let mut s2 = sz.clone();
            let pos = h.rng.below_u(64) as usize;
            s2[pos] ^= 1 << h.rng.below_u(8);
            both_rejected(h, "a signature with one flipped bit", &pkz, &s2, &msg);
            let mut p2 = pkz.clone();
            let pos = h.rng.below_u(32) as usize;
            p2[pos] ^= 1 << h.rng.below_u(8);
            both_rejected(h, "a public key with one flipped bit", &p2, &sz, &msg);
        }
        // the sign bits / top bits specifically
        for (pp, sp) in [(31usize, 64usize), (32, 31), (32, 63)] {
            let mut p2 = pkz.clone();
            let mut s2 = sz.clone();
            if pp < 32 {
                p2[pp] ^= 0x80;
            }
            if sp < 64 {
                s2[sp] ^= 0x80;
            }
            both_rejected(h, "a flipped top bit", &p2, &s2, &msg);
        }
        // another key
        let other = z::StrandSignaturePk::from(&z::StrandSignatureSk::strand_deserialize(&h.rng.bytes(32)).unwrap()).strand_serialize().unwrap();
        both_rejected(h, "a signature under another key", &other, &sz, &msg);
        // s + k*l : same residue, non-canonical scalar (signature malleability)
        let s = BigUint::from_bytes_le(&sz[32..]);
        for k in if quick { vec![1u32, 8] } else { vec![1u32, 2, 7, 8, 15] } {
            let s2 = &s + &l * k;
            let mut le = s2.to_bytes_le();
            if le.len() > 32 {
                continue;
            }
            le.resize(32, 0);
            let mut sig = sz[..32].to_vec();
            sig.extend(le);
            both_rejected(h, "a non-canonical s", &pkz, &sig, &msg);
        }
        // wrong lengths
        both_rejected(h, "a 31-byte key", &pkz[..31], &sz, &msg);
        both_rejected(h, "a 63-byte signature", &pkz, &sz[..63], &msg);
        // torsion-shifted key and nonce: the cofactored equation (zebra, ZIP-215) holds, the
        // cofactorless one (dalek) only when [k]T = 0.  Correspondence cases, no property verdict.
        let a_sc = scalar_of(&h.rng.below(&l));
        let r = scalar_of(&h.rng.below(&l));
        let a_pt = EdwardsPoint::mul_base(&a_sc);
        for tt in if quick { vec![0usize, 1, 4] } else { (0..8).collect::<Vec<_>>() } {
            let tor = constants::EIGHT_TORSION[tt];
            let tor2 = constants::EIGHT_TORSION[(tt * 3 + i) % 8];
            let a2 = (a_pt + tor).compress().to_bytes();
            let rr = (EdwardsPoint::mul_base(&r) + tor2).compress().to_bytes();
            let k = hs(&[&rr, &a2, &msg]);
            let s = r + k * a_sc;
            let mut sig = rr.to_vec();
            sig.extend(s.to_bytes());
            let (zo, _) = both(h, &a2, &sig, &msg);
            h.check(zo == t(), || "zebra rejects a signature satisfying the cofactored equation (ZIP-215)".to_string());
        }
    }
}

/// `StrandSignatureSk::new(rng)` of both front-ends under the byte tape (src/rnd.rs hook):
/// the key is the first 32 tape bytes, nothing else is drawn; it signs and verifies; without a
/// tape (OsRng) two generated keys differ.
fn generated(h: &mut Harness) {
    use strand::rnd::StrandRng;
    use strand::verif_hooks as vh;
    let quick = h.tier == Tier::Quick;
    for i in 0..(if quick { 6 } else { 60 }) {
        let mut tape = h.rng.bytes(96);
        if i == 0 {
            tape = vec![0; 96];
        }
        if i == 1 {
            tape = vec![0xff; 96];
        }
        for front in 0..2 {
            let tp = tape.clone();
            let out = h.case(TOK, "ed_new", vec![b(&tape)], move || {
                vh::load_byte_tape(Some(tp.clone()));
                let r = std::panic::catch_unwind(|| {
                    let mut rng = StrandRng;
                    if front == 0 {
                        z::StrandSignatureSk::new(&mut rng).strand_serialize().unwrap()
                    } else {
                        d::StrandSignatureSk::new(&mut rng).strand_serialize().unwrap()
                    }
                });
                let left = vh::byte_tape_len().unwrap_or(0);
                vh::load_byte_tape(None);
                match r {
                    Ok(k) => Out::Ok(l(vec![b(&k), nu((tp.len() - left) as u64)])),
                    Err(_) => Out::Panic,
                }
            });
            h.check(out == Out::Ok(l(vec![b(&tape[..32]), nu(32)])), || format!("front-end {}: a generated key is not the 32 bytes drawn from the RNG (tape {:02x?})", front, &tape[..40]));
        }
        // the generated key signs and the signature verifies on both front-ends
        let msg = h.rng.bytes(i * 11);
        let skz = z::StrandSignatureSk::strand_deserialize(&tape[..32]).unwrap();
        let pk = z::StrandSignaturePk::from(&skz).strand_serialize().unwrap();
        let sig = skz.sign(&msg).strand_serialize().unwrap();
        let (a, c) = both(h, &pk, &sig, &msg);
        h.check(a == t() && c == t(), || "a signature under a generated key is rejected".to_string());
    }
    // no tape: the operating system's RNG; fresh keys
    let mut rng = StrandRng;
    let mut seen = std::collections::HashSet::new();
    for _ in 0..(if quick { 8 } else { 64 }) {
        let kz = z::StrandSignatureSk::new(&mut rng).strand_serialize().unwrap();
        let kd = d::StrandSignatureSk::new(&mut rng).strand_serialize().unwrap();
        h.check(kz.len() == 32 && kd.len() == 32, || "generated key is not 32 bytes".to_string());
        h.check(seen.insert(kz) & seen.insert(kd), || "two generated signing keys coincide".to_string());
    }
}

/// Eq / Hash / Clone of keys and signatures: equality is equality of the encodings; equal keys hash equal;
/// clones sign, verify and serialise like the original (both front-ends)
fn eq_hash_clone(h: &mut Harness) {
    use std::collections::hash_map::DefaultHasher;
    use std::hash::{Hash, Hasher};
    let hash_of = |k: &dyn Fn(&mut DefaultHasher)| {
        let mut st = DefaultHasher::new();
        k(&mut st);
        st.finish()
    };
    let quick = h.tier == Tier::Quick;
    for i in 0..(if quick { 6 } else { 60 }) {
        let (s1, s2) = (h.rng.bytes(32), h.rng.bytes(32));
        let msg = h.rng.bytes(i * 5);
        // zebra
        let (ka, kb) = (z::StrandSignatureSk::strand_deserialize(&s1).unwrap(), z::StrandSignatureSk::strand_deserialize(&s2).unwrap());
        let (pa, pa2, pb) = (z::StrandSignaturePk::from(&ka), z::StrandSignaturePk::strand_deserialize(&z::StrandSignaturePk::from(&ka).strand_serialize().unwrap()).unwrap(), z::StrandSignaturePk::from(&kb));
        h.check(pa == pa2 && pa != pb, || "zebra: public-key equality is not equality of the encodings".to_string());
        h.check(hash_of(&|st| pa.hash(st)) == hash_of(&|st| pa2.hash(st)), || "zebra: equal public keys hash differently".to_string());
        h.check(hash_of(&|st| pa.hash(st)) != hash_of(&|st| pb.hash(st)), || "zebra: different public keys hash equal".to_string());
        let kc = ka.clone();
        h.check(kc.strand_serialize().unwrap() == s1 && kc.sign(&msg).strand_serialize().unwrap() == ka.sign(&msg).strand_serialize().unwrap(), || "zebra: a cloned signing key differs from the original".to_string());
        let (pc, sg) = (pa.clone(), ka.sign(&msg));
        let sgc = sg.clone();
        h.check(pc == pa && pc.verify(&sgc, &msg).is_ok() && sgc.strand_serialize().unwrap() == sg.strand_serialize().unwrap(), || "zebra: cloned public key / signature differ from the original".to_string());
        // dalek
        let (ka, kb) = (d::StrandSignatureSk::strand_deserialize(&s1).unwrap(), d::StrandSignatureSk::strand_deserialize(&s2).unwrap());
        let (pa, pa2, pb) = (d::StrandSignaturePk::from(&ka), d::StrandSignaturePk::strand_deserialize(&d::StrandSignaturePk::from(&ka).strand_serialize().unwrap()).unwrap(), d::StrandSignaturePk::from(&kb));
        h.check(pa == pa2 && pa != pb, || "dalek: public-key equality is not equality of the encodings".to_string());
        h.check(hash_of(&|st| pa.hash(st)) == hash_of(&|st| pa2.hash(st)), || "dalek: equal public keys hash differently".to_string());
        h.check(hash_of(&|st| pa.hash(st)) != hash_of(&|st| pb.hash(st)), || "dalek: different public keys hash equal".to_string());
        let kc = ka.clone();
        h.check(kc.strand_serialize().unwrap() == s1 && kc.sign(&msg).strand_serialize().unwrap() == ka.sign(&msg).strand_serialize().unwrap(), || "dalek: a cloned signing key differs from the original".to_string());
        let (pc, sg) = (pa.clone(), ka.sign(&msg));
        let sgc = sg.clone();
        h.check(pc == pa && pc.verify(&sgc, &msg).is_ok() && sgc.strand_serialize().unwrap() == sg.strand_serialize().unwrap(), || "dalek: cloned public key / signature differ from the original".to_string());
    }
}

fn small_order(h: &mut Harness) {
    let quick = h.tier == Tier::Quick;
    let tors = torsion_encodings();
    for (ai, a) in tors.iter().enumerate() {
        let outs = des_all(h, a);
        h.check(outs[0] == Out::Ok(b(a)) && outs[1] == Out::Ok(b(a)), || "an encoding of a small-order point is refused as a key (ZIP-215: must decode)".to_string());
        for (ri, r) in tors.iter().enumerate() {
            let variants: Vec<(u8, Vec<u8>)> = if quick { vec![(0u8, b"Zcash".to_vec())] } else { vec![(0u8, b"Zcash".to_vec()), (0u8, vec![]), (1u8, b"Zcash".to_vec())] };
            for (sv, msg) in variants {
                if quick && (ai + ri) % 2 == 1 {
                    continue;
                }
                let mut sig = r.to_vec();
                let mut s = [0u8; 32];
                s[0] = sv;
                sig.extend(s);
                let (zo, _) = both(h, a, &sig, &msg);
                if sv == 0 {
                    h.check(zo == t(), || "zebra rejects a ZIP-215 small-order test vector".to_string());
                }
            }
        }
        // small-order key, s = 0: the cofactorless equation holds iff R = -[k]A
        for j in 0..(if quick { 2 } else { 24 }) {
            let msg = vec![j as u8, 0x55];
            let r = constants::EIGHT_TORSION[j % 8].compress().to_bytes();
            let mut sig = r.to_vec();
            sig.extend([0u8; 32]);
            both(h, a, &sig, &msg);
        }
    }
}

fn decoders(h: &mut Harness) {
    let quick = h.tier == Tier::Quick;
    for len in [0usize, 1, 31, 32, 33, 63, 64, 65, 96] {
        for _ in 0..(if quick { 3 } else { 40 }) {
            let bs = h.rng.bytes(len);
            let outs = des_all(h, &bs);
            h.check(outs.iter().all(|o| *o != Out::Panic), || format!("a signature-type decoder panics on {:02x?}", bs));
            for (k, want) in [32usize, 32, 32, 32, 64, 64].iter().enumerate() {
                if len != *want {
                    h.check(outs[k] == Out::Err, || format!("a {}-byte string is accepted where {} bytes are required", len, want));
                }
            }
            if len == 32 {
                h.check(outs[2] == Out::Ok(b(&bs)) && outs[3] == Out::Ok(b(&bs)), || "32 bytes refused as a signing key".to_string());
                h.check(outs[0] == outs[1], || "the two front-ends disagree on a public-key encoding".to_string());
            }
            if len == 64 {
                h.check(outs[4] == Out::Ok(b(&bs)) && outs[5] == Out::Ok(b(&bs)), || "64 bytes refused as a signature".to_string());
            }
        }
    }
    let p = (BigUint::from(1u32) << 255) - 19u32;
    for _ in 0..(if quick { 20 } else { 300 }) {
        // y near p (non-canonical field encodings) and tiny y, either sign
        let y: BigUint = (&p - 19u32) + (h.rng.below_u(38) as u32);
        let mut le = y.to_bytes_le();
        le.resize(32, 0);
        if h.rng.below_u(2) == 1 {
            le[31] |= 0x80;
        }
        let outs = des_all(h, &le);
        h.check(outs[0] == outs[1], || "the two front-ends disagree on a public-key encoding".to_string());
        let mut yy = vec![0u8; 32];
        yy[0] = h.rng.below_u(20) as u8;
        yy[31] = (h.rng.below_u(2) as u8) << 7;
        let outs = des_all(h, &yy);
        h.check(outs[0] == outs[1], || "the two front-ends disagree on a public-key encoding".to_string());
    }
}

pub fn run(h: &mut Harness) {
    h.comment("context SIG");
    let res = std::panic::catch_unwind(std::panic::AssertUnwindSafe(|| {
        base64_stream(h);
        honest(h);
        generated(h);
        eq_hash_clone(h);
        small_order(h);
        decoders(h);
    }));
    if res.is_err() {
        h.prop_evals += 1;
        h.prop_failures.push("harness panicked while exploring C20 on SIG".to_string());
    }
}
