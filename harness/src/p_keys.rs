//! C08 (n-of-n keys), C09 (Feldman check), C10 (threshold reconstruction).
use crate::core::*;
use crate::ctxs::NatCtx;
use crate::env::Env;
use crate::p_shuffle::{permutations, vnats};
use crate::val::*;
use num_bigint::BigUint;
use strand::context::Element;
use strand::elgamal::{Ciphertext, PrivateKey, PublicKey};
use strand::threshold;
use strand::verif_hooks::KeymakerV;
use strand::zkp::Zkp;

pub fn run_c08<C: NatCtx>(v: &mut Env<C>) {
    let (p, q, g) = (v.p.clone(), v.q.clone(), v.g.clone());
    let quick = v.h.tier == Tier::Quick;
    let ctx = v.ctx.clone();
    let tok = v.tok.clone();
    // ---- SCALE (implementation only, cheapest group): many trustees, long ciphertext lists
    if v.small && p == big(23) && C::kind() == 'B' {
        for (nt, ll) in if quick { vec![(70usize, 40usize), (3, 4100), (2, 70001)] } else { vec![(70, 40), (300, 10), (3, 4100), (5, 16390), (2, 70001), (2, 140000)] } {
            strand::verif_hooks::load_exp_tape(vec![]);
            let sks: Vec<BigUint> = (0..nt).map(|_| v.rnd_exp()).collect();
            let pks: Vec<PublicKey<C>> = sks.iter().map(|s| PublicKey::from_element(&ctx.gmod_pow(&v.x(s)), &ctx)).collect();
            let joint = KeymakerV::combine_pks(&ctx, pks);
            let jv = C::e_val(strand::verif_hooks::pk_element(&joint));
            let want = g.modpow(&sks.iter().fold(big(0), |a, b| (a + b) % &q), &p);
            v.h.check(jv == want, || format!("joint key of {} trustees is not the product of the shares on {}", nt, tok));
            let ms: Vec<BigUint> = (0..ll).map(|_| v.rnd_member()).collect();
            let cts: Vec<Ciphertext<C>> = ms.iter().map(|m| joint.encrypt(&v.e(m))).collect();
            let decs: Vec<Vec<C::E>> = sks.iter().map(|s| { let key = PrivateKey::from(&v.x(s), &ctx); cts.iter().map(|c| key.decryption_factor(c)).collect() }).collect();
            let out: Vec<BigUint> = KeymakerV::joint_dec_many(&ctx, &decs, &cts).iter().map(C::e_val).collect();
            let bad = out.iter().zip(ms.iter()).position(|(a, b)| a != b);
            v.h.check(out.len() == ll && bad.is_none(), || format!("joint decryption of {} ciphertexts by {} trustees: {} results, first wrong position {:?} on {}", ll, nt, out.len(), bad, tok));
        }
    }
    let maxn = if v.small { if quick { 5 } else { 16 } } else if quick { 3 } else { 8 };
    for nt in 1..=maxn {
        let label = v.label(nt);
        let sks: Vec<BigUint> = (0..nt).map(|i| if i == 1 { big(0) } else { v.rnd_exp() }).collect();
        let kms: Vec<KeymakerV<C>> = sks.iter().map(|s| KeymakerV::from_sk(PrivateKey::from(&v.x(s), &ctx), &ctx)).collect();
        let mut pks: Vec<BigUint> = vec![];
        for (i, km) in kms.iter().enumerate() {
            let nonce = v.rnd_exp();
            load_tape(&[nonce.clone()]);
            let mut got = None;
            v.case("km_share", vec![n(&sks[i]), b(&label), n(&nonce)], || match km.share(&label) {
                Ok((pk, pf)) => {
                    let pe = strand::verif_hooks::pk_element(&pk).clone();
                    let o = l(vec![Val::Nat(C::e_val(&pe)), l(vec![Val::Nat(C::e_val(&pf.commitment)), Val::Nat(C::x_val(&pf.challenge)), Val::Nat(C::x_val(&pf.response))])]);
                    got = Some((pe, pf));
                    Out::Ok(o)
                }
                Err(_) => Out::Err,
            });
            let Some((pe, pf)) = got else { return };
            let pkv = C::e_val(&pe);
            let vpf = v.vschnorr(&pf);
            let mut ok = false;
            let pko = PublicKey::from_element(&pe, &ctx);
            v.case("km_verify_share", vec![n(&pkv), vpf, b(&label)], || {
                ok = KeymakerV::verify_share(&ctx, &pko, &pf, &label);
                Out::Ok(Val::Bool(ok))
            });
            v.h.check(ok, || format!("share proof of trustee {} rejected on {}", i, tok));
            pks.push(pkv);
        }
        // joint key = product, regardless of order
        let combine = |v: &mut Env<C>, pks: &[BigUint]| -> Option<BigUint> {
            let ctx = v.ctx.clone();
            let pko: Vec<PublicKey<C>> = pks.iter().map(|x| PublicKey::from_element(&C::e_raw(x), &ctx)).collect();
            let mut r = None;
            v.case("km_combine", vec![vnats(pks)], || {
                let pk = KeymakerV::combine_pks(&ctx, pko);
                let e = C::e_val(strand::verif_hooks::pk_element(&pk));
                r = Some(e.clone());
                Out::Ok(Val::Nat(e))
            });
            r
        };
        let Some(joint) = combine(v, &pks) else { return };
        let prod = pks.iter().fold(big(1), |a, b| (a * b) % &p);
        v.h.check(joint == prod || (nt == 1 && joint == pks[0]), || format!("joint key is not the product of the shares on {} n={}", tok, nt));
        let orders: Vec<Vec<usize>> = if nt <= (if quick { 4 } else { 6 }) { permutations(nt) } else { vec![(0..nt).rev().collect(), (0..nt).map(|i| (i + 1) % nt).collect()] };
        for ord in orders.iter().take(if quick { 30 } else { 720 }) {
            let pk2: Vec<BigUint> = ord.iter().map(|&i| pks[i].clone()).collect();
            if let Some(j2) = combine(v, &pk2) {
                v.h.check(j2 == joint, || format!("joint key depends on the order of shares on {} n={}", tok, nt));
            }
        }
        // encrypt under the joint key, decrypt with all n factors (every order), lists position by position
        let jpk = PublicKey::<C>::from_element(&C::e_raw(&joint), &ctx);
        let lens: Vec<usize> = if quick { vec![0, 1, 3] } else { vec![0, 1, 2, 5, 40] };
        for &len in &lens {
            let ms: Vec<BigUint> = (0..len).map(|_| v.rnd_member()).collect();
            let cts: Vec<Ciphertext<C>> = ms.iter().map(|m| jpk.encrypt_with_randomness(&v.e(m), &{ let t_ = v.rnd_exp(); C::x_raw(&t_) })).collect();
            let factors: Vec<Vec<C::E>> = sks.iter().map(|s| cts.iter().map(|c| ctx.emod_pow(&c.gr, &v.x(s))).collect()).collect();
            let fv: Vec<Val> = factors.iter().map(|fs| l(fs.iter().map(|f| v.ve(f)).collect())).collect();
            let vc = l(cts.iter().map(|c| v.vct(c)).collect());
            let mut outm = None;
            v.case("km_joint_dec_many", vec![l(fv.clone()), vc.clone()], || {
                let r = KeymakerV::joint_dec_many(&ctx, &factors, &cts);
                let o = l(r.iter().map(|e| Val::Nat(C::e_val(e))).collect());
                outm = Some(r);
                Out::Ok(o)
            });
            if let Some(r) = outm {
                let got: Vec<BigUint> = r.iter().map(C::e_val).collect();
                v.h.check(got == ms, || format!("joint decryption of a list of {} fails on {} n={}", len, tok, nt));
            }
            for (k, c) in cts.iter().enumerate().take(2) {
                let col: Vec<C::E> = factors.iter().map(|fs| fs[k].clone()).collect();
                for ord in orders.iter().take(if quick { 6 } else { 120 }) {
                    let col2: Vec<C::E> = ord.iter().map(|&i| col[i].clone()).collect();
                    let args = vec![l(col2.iter().map(|f| v.ve(f)).collect()), v.vct(c)];
                    let mut d = None;
                    let c2 = c.clone();
                    v.case("km_joint_dec", args, || {
                        let r = KeymakerV::joint_dec(&ctx, col2, &c2);
                        let o = Val::Nat(C::e_val(&r));
                        d = Some(r);
                        Out::Ok(o)
                    });
                    if let Some(d) = d {
                        v.h.check(C::e_val(&d) == ms[k], || format!("joint decryption fails on {} n={} order={:?}", tok, nt, ord));
                    }
                }
                // leaving out / duplicating a trustee's factor (non-zero share, non-trivial gr)
                for i in 0..nt {
                    if sks[i] == big(0) || C::e_val(&c.gr) == big(1) || nt < 2 {
                        continue;
                    }
                    let mut omit = col.clone();
                    omit.remove(i);
                    let d = KeymakerV::joint_dec(&ctx, omit, c);
                    v.h.check(C::e_val(&d) != ms[k], || format!("omitting trustee {}'s factor still yields the plaintext on {} n={}", i, tok, nt));
                    let mut dup = col.clone();
                    dup.push(col[i].clone());
                    let d = KeymakerV::joint_dec(&ctx, dup, c);
                    v.h.check(C::e_val(&d) != ms[k], || format!("duplicating trustee {}'s factor still yields the plaintext on {} n={}", i, tok, nt));
                }
            }
        }
    }
    let _ = (q, g);
}

pub fn run_c09<C: NatCtx>(v: &mut Env<C>) {
    let (p, q, g) = (v.p.clone(), v.q.clone(), v.g.clone());
    let quick = v.h.tier == Tier::Quick;
    let ctx = v.ctx.clone();
    let tok = v.tok.clone();
    let maxn: usize = if v.small { if p <= big(47) { if quick { 24 } else { 100 } } else { 18 } } else if quick { 18 } else { 40 };
    let step = if v.small { 1 } else { 6 };
    if v.small && p <= big(47) {
        v.h.exhaustive_notes.push(format!("{}: all (n, t, receiver) with t <= n <= {}", tok, maxn));
    }
    let mut t = 1;
    while t <= maxn {
        // coefficient vectors: random, all zero, all q-1
        let kinds: Vec<Vec<BigUint>> = vec![
            (0..t).map(|_| v.rnd_exp()).collect(),
            (0..t).map(|i| if i % 2 == 0 { big(0) } else { &q - 1u32 }).collect(),
        ];
        for (ki, coeffs) in kinds.iter().enumerate() {
            if !v.small && ki == 1 && quick {
                continue;
            }
            let xs: Vec<C::X> = coeffs.iter().map(C::x_raw).collect();
            load_tape(coeffs);
            let mut comms: Vec<C::E> = vec![];
            v.case("th_coeffs", vec![nu(t as u64), vnats(coeffs)], || {
                let (cs, ms) = threshold::gen_coefficients(t, &ctx);
                let o = l(vec![l(cs.iter().map(|x| Val::Nat(C::x_val(x))).collect()), l(ms.iter().map(|e| Val::Nat(C::e_val(e))).collect())]);
                comms = ms;
                Out::Ok(o)
            });
            if comms.len() != t {
                return;
            }
            let commsv: Vec<BigUint> = comms.iter().map(C::e_val).collect();
            let recv: Vec<usize> = if v.small { (0..maxn).filter(|j| *j + 1 >= t || *j < 3).collect() } else { vec![0, 1, t - 1, maxn - 1, 15, 99] };
            for j in recv {
                // only receivers of an n-trustee setting with t <= n: any j in 0..n-1, n >= t
                let mut share = None;
                v.case("th_share", vec![nu(j as u64), nu(t as u64), vnats(coeffs)], || {
                    let s = threshold::compute_peer_share(j, t, &xs, &ctx);
                    let o = Val::Nat(C::x_val(&s));
                    share = Some(s);
                    Out::Ok(o)
                });
                let mut vkf = None;
                v.case("th_vkf", vec![vnats(&commsv), nu(t as u64), nu(j as u64)], || {
                    let f = threshold::verification_key_factor(&comms, t, j, &ctx);
                    let o = Val::Nat(C::e_val(&f));
                    vkf = Some(f);
                    Out::Ok(o)
                });
                // a dealer buffer LONGER than the threshold (sized for a larger committee): shares and the Feldman
                // check both use the first t entries, so the verdict is the same
                if j < 3 {
                    let mut long_comms = comms.clone();
                    let mut long_xs = xs.clone();
                    for k in 0..(1 + j) {
                        let extra = v.rnd_exp();
                        long_comms.push(ctx.gmod_pow(&C::x_raw(&extra)));
                        long_xs.push(C::x_raw(&extra));
                        let _ = k;
                    }
                    let lv: Vec<BigUint> = long_comms.iter().map(C::e_val).collect();
                    let lx: Vec<BigUint> = long_xs.iter().map(C::x_val).collect();
                    let (lc2, lx2, ctx2) = (long_comms.clone(), long_xs.clone(), ctx.clone());
                    let f_long = v.case("th_vkf", vec![vnats(&lv), nu(t as u64), nu(j as u64)], || Out::Ok(Val::Nat(C::e_val(&threshold::verification_key_factor(&lc2, t, j, &ctx2)))));
                    let ctx2 = ctx.clone();
                    let s_long = v.case("th_share", vec![nu(j as u64), nu(t as u64), vnats(&lx)], || Out::Ok(Val::Nat(C::x_val(&threshold::compute_peer_share(j, t, &lx2, &ctx2)))));
                    if let (Out::Ok(Val::Nat(fl)), Out::Ok(Val::Nat(sl))) = (&f_long, &s_long) {
                        v.h.check(g.modpow(sl, &p) == *fl, || format!("honest share rejected by the Feldman check when the dealer's vectors hold {} entries and the threshold is {} (receiver {}) on {}", lv.len(), t, j, tok));
                    } else {
                        v.h.check(false, || format!("share / verification key factor panics on vectors longer than the threshold on {} t={}", tok, t));
                    }
                }
                match (share, vkf) {
                    (Some(s), Some(f)) => {
                        let ok = ctx.gmod_pow(&s) == f;
                        v.h.check(ok, || format!("honest share rejected by the Feldman check on {} t={} receiver={} coeffs kind {}", tok, t, j, ki));
                        // altered share
                        for d in [1u32, 2] {
                            let s2 = C::x_raw(&((C::x_val(&s) + d) % &q));
                            let bad = ctx.gmod_pow(&s2) == f;
                            v.h.check(!bad, || format!("share altered by {} accepted on {} t={} receiver={}", d, tok, t, j));
                        }
                    }
                    _ => v.h.check(false, || format!("share / verification key factor computation panicked on {} t={} receiver={}", tok, t, j)),
                }
            }
        }
        t += step;
    }
}

fn subsets(nn: usize) -> Vec<Vec<usize>> {
    (1u32..(1 << nn)).map(|m| (0..nn).filter(|i| m & (1 << i) != 0).map(|i| i + 1).collect()).collect()
}

pub fn run_c10<C: NatCtx>(v: &mut Env<C>) {
    let (p, q, g) = (v.p.clone(), v.q.clone(), v.g.clone());
    let quick = v.h.tier == Tier::Quick;
    let ctx = v.ctx.clone();
    let zkp = Zkp::new(&ctx);
    let tok = v.tok.clone();
    if v.small && p < big(23) {
        return; // indices must stay below q
    }
    // ---- large committees (n up to 16, t up to 13): every share against an independent Horner evaluation
    // over the integers mod q, reconstruction from the HIGHEST positions and from a random subset
    // (beyond 20 present trustees the products of positions no longer fit a machine word)
    for (nn, t) in if quick { vec![(12usize, 10usize), (16, 13), (24, 22), (40, 33), (70, 70), (130, 129), (300, 20)] } else { vec![(11, 11), (12, 10), (12, 12), (13, 11), (16, 13), (16, 9), (21, 21), (24, 22), (33, 33), (40, 33), (65, 64), (70, 70), (130, 129), (257, 256), (300, 260), (1030, 1025), (70001, 5)] } {
        if big(nn as u64) >= q {
            continue;
        }
        let coeffs: Vec<BigUint> = (0..t).map(|k| if k == t - 1 { &q - 1u32 } else { v.rnd_exp() }).collect();
        let xs: Vec<C::X> = coeffs.iter().map(C::x_raw).collect();
        let mut shares = vec![];
        for j in 0..nn {
            let (xs2, ctx2) = (xs.clone(), ctx.clone());
            let out = v.case("th_share", vec![nu(j as u64), nu(t as u64), vnats(&coeffs)], || Out::Ok(Val::Nat(C::x_val(&threshold::compute_peer_share(j, t, &xs2, &ctx2)))));
            let pos = big(j as u64 + 1);
            let want = coeffs.iter().rev().fold(big(0), |a, c| (a * &pos + c) % &q);
            v.h.check(out == Out::Ok(n(&want)), || format!("the share of trustee {} (n={}, t={}) is {:?}, the dealer polynomial {:x?} evaluates to {:x} at {} on {}", j + 1, nn, t, out, coeffs, want, j + 1, tok));
            shares.push(match out { Out::Ok(Val::Nat(x)) => x, _ => want });
        }
        let mut rnd_set: Vec<usize> = (1..=nn).collect();
        for i in (1..nn).rev() {
            let j = v.h.rng.below_u(i as u64 + 1) as usize;
            rnd_set.swap(i, j);
        }
        rnd_set.truncate(t);
        for present in [((nn - t + 1)..=nn).collect::<Vec<usize>>(), rnd_set] {
            let mut acc = big(0);
            let mut panicked = None;
            for &i in &present {
                match std::panic::catch_unwind(std::panic::AssertUnwindSafe(|| C::x_val(&threshold::lagrange(i, &present, &ctx)))) {
                    Ok(lam) => acc = (acc + lam * &shares[i - 1]) % &q,
                    Err(_) => panicked = Some(i),
                }
            }
            v.h.check(panicked.is_none(), || format!("lagrange({}, {:?}) panics (n={}, t={}) on {}", panicked.unwrap_or(0), present, nn, t, tok));
            v.h.check(panicked.is_some() || acc == coeffs[0].clone() % &q, || format!("trustees {:?} of n={} (t={}) do not reconstruct the dealer's secret on {}", present, nn, t, tok));
        }
    }
    let ns: Vec<usize> = if v.small { if quick { vec![2, 4, 6] } else { vec![2, 3, 5, 8, 10] } } else if quick { vec![3] } else { vec![3, 6] };
    for nn in ns {
        if big(nn as u64) >= q {
            continue;
        }
        for t in 1..=nn {
            if !v.small && t != (nn + 1) / 2 && t != nn {
                continue;
            }
            // every trustee is a dealer with its own polynomial
            let polys: Vec<Vec<BigUint>> = (0..nn).map(|_| (0..t).map(|_| v.rnd_exp()).collect()).collect();
            let secret = polys.iter().fold(big(0), |a, c| (a + &c[0]) % &q);
            let pk = g.modpow(&secret, &p);
            // share of trustee i (1-based) = sum over dealers of P_d(i)
            let shares: Vec<BigUint> = (0..nn)
                .map(|i| {
                    polys.iter().fold(big(0), |a, c| {
                        let xs: Vec<C::X> = c.iter().map(C::x_raw).collect();
                        (a + C::x_val(&threshold::compute_peer_share(i, t, &xs, &ctx))) % &q
                    })
                })
                .collect();
            let m = v.rnd_member();
            let r = v.rnd_exp();
            let pko = PublicKey::<C>::from_element(&C::e_raw(&pk), &ctx);
            let c = pko.encrypt_with_randomness(&v.e(&m), &v.x(&r));
            let all = subsets(nn);
            for (si, s) in all.iter().enumerate() {
                if !v.small && si % 7 != 0 && s.len() != nn {
                    continue;
                }
                let orders: Vec<Vec<usize>> = vec![s.clone(), s.iter().rev().cloned().collect(), {
                    let mut x = s.clone();
                    for i in (1..x.len()).rev() {
                        let j = v.h.rng.below_u(i as u64 + 1) as usize;
                        x.swap(i, j);
                    }
                    x
                }];
                for present in orders.iter().take(if s.len() > 1 { 3 } else { 1 }) {
                    let mut divider = C::E::mul_identity();
                    for &i in present {
                        let mut lag = None;
                        v.case("th_lagrange", vec![nu(i as u64), l(present.iter().map(|x| nu(*x as u64)).collect())], || {
                            let x = threshold::lagrange(i, present, &ctx);
                            let o = Val::Nat(C::x_val(&x));
                            lag = Some(x);
                            Out::Ok(o)
                        });
                        let Some(lag) = lag else { return };
                        let factor = ctx.emod_pow(&c.gr, &C::x_raw(&shares[i - 1]));
                        divider = divider.mul(&ctx.emod_pow(&factor, &lag)).modp(&ctx);
                    }
                    let d = c.mhr.divp(&divider, &ctx).modp(&ctx);
                    if s.len() >= t {
                        v.h.check(C::e_val(&d) == m, || format!("{} trustees {:?} of n={} (t={}) do not reconstruct on {}", s.len(), present, nn, t, tok));
                    }
                }
                // lambda interpolates at zero: sum_i lambda_i P(i) = P(0) for the first dealer's polynomial
                if s.len() >= t {
                    let mut acc = big(0);
                    for &i in s {
                        let lam = C::x_val(&threshold::lagrange(i, s, &ctx));
                        let xs: Vec<C::X> = polys[0].iter().map(C::x_raw).collect();
                        let pi = C::x_val(&threshold::eval_poly(i, t, &xs, &ctx));
                        acc = (acc + lam * pi) % &q;
                    }
                    v.h.check(acc == polys[0][0].clone() % &q, || format!("Lagrange coefficients for {:?} do not interpolate at zero on {} t={}", s, tok, t));
                }
            }
            // verified factor of one trustee
            let vkey = g.modpow(&shares[0], &p);
            let nonce = v.rnd_exp();
            load_tape(&[nonce]);
            if let Ok((f, pf)) = threshold::decryption_factor(&c, &C::x_raw(&shares[0]), &C::e_raw(&vkey), b"", ctx.clone()) {
                let ok = zkp.verify_decryption(&C::e_raw(&vkey), &f, &c.mhr, &c.gr, &pf, b"").unwrap_or(false);
                v.h.check(ok, || format!("threshold factor proof rejected on {}", tok));
            }
            strand::verif_hooks::load_exp_tape(vec![]);
        }
    }
}
