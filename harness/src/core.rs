//! Harness core: PRNG, case recording, tapes, statistics.
use crate::ctxs::NatCtx;
use crate::val::*;
use num_bigint::BigUint;
use num_traits::{One, Zero};
use std::collections::BTreeMap;
use std::panic::{catch_unwind, AssertUnwindSafe};

pub struct SplitMix(pub u64);
impl SplitMix {
    pub fn next(&mut self) -> u64 {
        self.0 = self.0.wrapping_add(0x9E3779B97F4A7C15);
        let mut z = self.0;
        z = (z ^ (z >> 30)).wrapping_mul(0xBF58476D1CE4E5B9);
        z = (z ^ (z >> 27)).wrapping_mul(0x94D049BB133111EB);
        z ^ (z >> 31)
    }
    pub fn below_u(&mut self, n: u64) -> u64 {
        if n == 0 {
            0
        } else {
            self.next() % n
        }
    }
    pub fn bytes(&mut self, len: usize) -> Vec<u8> {
        (0..len).map(|_| self.next() as u8).collect()
    }
    /// uniform-ish value below `n` (bias is irrelevant for test generation)
    pub fn below(&mut self, n: &BigUint) -> BigUint {
        if n.is_zero() {
            return BigUint::zero();
        }
        let len = (n.bits() as usize + 7) / 8 + 8;
        BigUint::from_bytes_be(&self.bytes(len)) % n
    }
}

#[derive(PartialEq, Eq, Clone, Copy, Debug)]
pub enum Tier {
    Quick,
    Thorough,
}

pub struct Harness {
    pub prop: String,
    pub tier: Tier,
    pub rng: SplitMix,
    pub ops: Vec<String>,
    pub imp: Vec<String>,
    pub stats: BTreeMap<String, u64>,
    pub prop_failures: Vec<String>,
    pub prop_evals: u64,
    pub samples: Vec<String>,
    pub exhaustive_notes: Vec<String>,
    /// bytes allocated at the peak of the last case, above the level before it started
    pub last_peak: usize,
    /// when set, the request line is written here BEFORE the case runs: if the process aborts
    /// (allocation failure, stack overflow) the check can still name the failing input
    pub trace_path: Option<std::path::PathBuf>,
}

impl Harness {
    pub fn new(prop: &str, tier: Tier, seed: u64) -> Harness {
        Harness {
            prop: prop.to_string(),
            tier,
            rng: SplitMix(seed.wrapping_mul(0x2545F4914F6CDD1D) ^ 0xC0FFEE),
            ops: vec![],
            imp: vec![],
            stats: BTreeMap::new(),
            prop_failures: vec![],
            prop_evals: 0,
            samples: vec![],
            exhaustive_notes: vec![],
            last_peak: 0,
            trace_path: None,
        }
    }
    pub fn stat(&mut self, key: &str) {
        *self.stats.entry(key.to_string()).or_insert(0) += 1;
    }
    pub fn stat_n(&mut self, key: &str, n: u64) {
        *self.stats.entry(key.to_string()).or_insert(0) += n;
    }
    pub fn comment(&mut self, text: &str) {
        self.ops.push(format!("# {}", text));
        self.imp.push(format!("# {}", text));
    }
    /// record one correspondence case: the request line and the implementation's answer
    pub fn case(
        &mut self,
        tok: &str,
        op: &str,
        args: Vec<Val>,
        f: impl FnOnce() -> Out,
    ) -> Out {
        let mut line = format!("{} {}", op, tok);
        for a in &args {
            line.push(' ');
            line.push_str(&a.to_string());
        }
        if let Some(p) = &self.trace_path {
            let _ = std::fs::write(p, &line);
        }
        let base = crate::alloc::current();
        crate::alloc::reset_peak();
        let out = catch_unwind(AssertUnwindSafe(f)).unwrap_or(Out::Panic);
        self.last_peak = crate::alloc::peak().saturating_sub(base);
        // a value-level tape must be consumed exactly
        let left = strand::verif_hooks::exp_tape_len();
        strand::verif_hooks::load_exp_tape(vec![]);
        let mut s = out.to_string();
        if left > 0 {
            s.push_str(&format!(" leftover-tape:{}", left));
        }
        self.stat(&format!("op:{}", op));
        match &out {
            Out::Ok(_) => self.stat("out:ok"),
            Out::Err => self.stat("out:err"),
            Out::Panic => self.stat("out:panic"),
        }
        if self.samples.len() < 6 && self.rng.below_u(50) == 0 || self.samples.is_empty() {
            self.samples.push(format!("{} => {}", line, s));
        }
        self.ops.push(line);
        self.imp.push(s);
        out
    }
    /// evaluate the property's own predicate on the implementation
    pub fn check(&mut self, ok: bool, what: impl FnOnce() -> String) {
        self.prop_evals += 1;
        if !ok {
            let w = what();
            if self.prop_failures.len() < 200 {
                self.prop_failures.push(w);
            }
        }
    }
    pub fn check_nopanic<T>(&mut self, what: &str, f: impl FnOnce() -> T) -> Option<T> {
        match catch_unwind(AssertUnwindSafe(f)) {
            Ok(v) => Some(v),
            Err(_) => {
                self.prop_evals += 1;
                self.prop_failures.push(format!("panic: {}", what));
                None
            }
        }
    }
}

pub fn load_tape(values: &[BigUint]) {
    strand::verif_hooks::load_exp_tape(values.iter().map(|v| v.to_bytes_be()).collect());
}

pub fn tok_of<C: NatCtx>(ctx: &C, builtin: bool) -> String {
    if builtin {
        format!("{}2048", C::kind())
    } else {
        let (p, q, g) = ctx.pqg();
        format!("{}:{}:{}:{}", C::kind(), p, q, g)
    }
}

/// all members of the order-q subgroup of Z_p^* (small p only)
pub fn subgroup(p: &BigUint, q: &BigUint) -> Vec<BigUint> {
    let mut v = vec![];
    let mut a = BigUint::one();
    while &a < p {
        if a.modpow(q, p).is_one() {
            v.push(a.clone());
        }
        a += 1u32;
    }
    v
}
pub fn big(x: u64) -> BigUint {
    BigUint::from(x)
}
