//! C06 (sigma verifiers decide exactly) and C07 (verifiable decryption).
use crate::core::*;
use crate::ctxs::NatCtx;
use crate::env::Env;
use crate::p_c05::opt_e;
use crate::val::*;
use num_bigint::BigUint;
use strand::elgamal::{Ciphertext, PrivateKey};
use strand::zkp::verif as zv;
use strand::zkp::{ChaumPedersen, Schnorr, Zkp};

fn mk_schnorr<C: NatCtx>(t: &BigUint, c: &BigUint, s: &BigUint) -> Schnorr<C> {
    Schnorr { commitment: C::e_raw(t), challenge: C::x_raw(c), response: C::x_raw(s) }
}
fn mk_cp<C: NatCtx>(t1: &BigUint, t2: &BigUint, c: &BigUint, s: &BigUint) -> ChaumPedersen<C> {
    ChaumPedersen { commitment1: C::e_raw(t1), commitment2: C::e_raw(t2), challenge: C::x_raw(c), response: C::x_raw(s) }
}
fn vs(t: &BigUint, c: &BigUint, s: &BigUint) -> Val {
    l(vec![n(t), n(c), n(s)])
}
fn vc(t1: &BigUint, t2: &BigUint, c: &BigUint, s: &BigUint) -> Val {
    l(vec![n(t1), n(t2), n(c), n(s)])
}

/// verify an arbitrary Schnorr proof struct; the reference predicate is evaluated independently:
/// challenge == implementation's own oracle on the full statement, and g^s == t * y^c (BigUint)
pub fn sch_verify<C: NatCtx>(v: &mut Env<C>, g: &Option<BigUint>, y: &BigUint, t: &BigUint, c: &BigUint, s: &BigUint, label: &[u8]) -> bool {
    let ctx = v.ctx.clone();
    let zkp = Zkp::new(&ctx);
    let ge = g.as_ref().map(|x| v.e(x));
    let base = g.clone().unwrap_or_else(|| v.g.clone());
    let pf = mk_schnorr::<C>(t, c, s);
    let ye = v.e(y);
    let mut got = false;
    let out = v.case("sch_verify", vec![n(y), opt_e(g), vs(t, c, s), b(label)], || {
        got = zkp.schnorr_verify(&ye, ge.as_ref(), &pf, label);
        Out::Ok(Val::Bool(got))
    });
    let p = v.p.clone();
    let tok = v.tok.clone();
    if out == Out::Panic {
        v.h.check(false, || format!("schnorr_verify panicked on {} y={:x} t={:x} c={:x} s={:x}", tok, y, t, c, s));
        return false;
    }
    let h = zv::schnorr_challenge(&zkp, &v.e(&base), &ye, &v.e(t), None, label).map(|x| C::x_val(&x));
    let reference = match h {
        Ok(h) => h == *c && base.modpow(s, &p) == (t * y.modpow(c, &p)) % &p,
        Err(_) => false,
    };
    v.h.check(got == reference, || format!("Schnorr verifier decision {} differs from the reference predicate {} on {} g={:?} y={:x} t={:x} c={:x} s={:x} label={:?}", got, reference, tok, g, y, t, c, s, label));
    got
}

#[allow(clippy::too_many_arguments)]
pub fn cp_verify<C: NatCtx>(v: &mut Env<C>, g1: &Option<BigUint>, g2: &BigUint, y1: &BigUint, y2: &BigUint, t1: &BigUint, t2: &BigUint, c: &BigUint, s: &BigUint, label: &[u8]) -> bool {
    let ctx = v.ctx.clone();
    let zkp = Zkp::new(&ctx);
    let g1e = g1.as_ref().map(|x| v.e(x));
    let base1 = g1.clone().unwrap_or_else(|| v.g.clone());
    let pf = mk_cp::<C>(t1, t2, c, s);
    let (y1e, y2e, g2e) = (v.e(y1), v.e(y2), v.e(g2));
    let mut got = false;
    let out = v.case("cp_verify", vec![n(y1), n(y2), opt_e(g1), n(g2), vc(t1, t2, c, s), b(label)], || {
        got = zkp.cp_verify(&y1e, &y2e, g1e.as_ref(), &g2e, &pf, label);
        Out::Ok(Val::Bool(got))
    });
    let p = v.p.clone();
    let tok = v.tok.clone();
    if out == Out::Panic {
        v.h.check(false, || format!("cp_verify panicked on {}", tok));
        return false;
    }
    let h = zv::cp_challenge(&zkp, &v.e(&base1), &g2e, &y1e, &y2e, &v.e(t1), &v.e(t2), None, label).map(|x| C::x_val(&x));
    let reference = match h {
        Ok(h) => h == *c && base1.modpow(s, &p) == (t1 * y1.modpow(c, &p)) % &p && g2.modpow(s, &p) == (t2 * y2.modpow(c, &p)) % &p,
        Err(_) => false,
    };
    v.h.check(got == reference, || format!("CP verifier decision {} differs from the reference predicate {} on {} g1={:?} g2={:x} y1={:x} y2={:x} t1={:x} t2={:x} c={:x} s={:x}", got, reference, tok, g1, g2, y1, y2, t1, t2, c, s));
    got
}

/// DOMAIN SEPARATION between proof kinds: a generic proof whose label was crafted to contain the encoding of
/// a ciphertext component must not be accepted as a ciphertext-bound proof (and vice versa); "mhr absent,
/// label = enc(mhr) || L" and "mhr present, label = L" are different statements.  Default base.
pub fn cross_protocol<C: NatCtx>(v: &mut Env<C>, x: &BigUint, label: &[u8], strict: bool) {
    let (p, g) = (v.p.clone(), v.g.clone());
    let ctx = v.ctx.clone();
    let zkp = Zkp::new(&ctx);
    let tok = v.tok.clone();
    let y = g.modpow(x, &p);
    let x = x.clone();
    let label = label.to_vec();
        // (0) DOMAIN SEPARATION between proof kinds: a generic proof whose label was crafted to contain the
        // encoding of a ciphertext component must not be accepted as a ciphertext-bound proof (and vice versa);
        // "mhr absent, label = enc(mhr) || L" and "mhr present, label = L" are different statements
        {
            use strand::serialization::StrandSerialize;
            let mhr = v.rnd_member();
            let mhr_bytes = v.e(&mhr).strand_serialize().unwrap();
            let crafted: Vec<Vec<u8>> = vec![[mhr_bytes.clone(), label.clone()].concat(), [label.clone(), mhr_bytes.clone()].concat(), [b"mhr".to_vec(), mhr_bytes.clone(), b"label".to_vec(), label.clone()].concat()];
            strand::verif_hooks::load_exp_tape(vec![]);
            for lab2 in &crafted {
                let (xe, ye, me) = (v.x(&x), v.e(&y), v.e(&mhr));
                let generic = zkp.schnorr_prove(&xe, &ye, None, lab2).unwrap();
                let acc = zkp.encryption_popk_verify(&me, &ye, &generic, &label).unwrap_or(false);
                v.h.check(!(acc && strict), || format!("a generic Schnorr proof with the crafted label {:02x?}.. is accepted as a plaintext-knowledge proof for mhr={:x} with label {:02x?} on {}", &lab2[..lab2.len().min(12)], mhr, &label[..label.len().min(12)], tok));
                let bound = zkp.encryption_popk(&xe, &me, &ye, &label).unwrap();
                let acc = zkp.schnorr_verify(&ye, None, &bound, lab2);
                v.h.check(!(acc && strict), || format!("a plaintext-knowledge proof for mhr={:x} is accepted as a generic Schnorr proof with a crafted label on {}", mhr, tok));
                // Chaum-Pedersen / decryption proofs
                let gr = v.rnd_member();
                let f = gr.modpow(&x, &p);
                let (gre, fe) = (v.e(&gr), v.e(&f));
                let generic = zkp.cp_prove(&xe, &ye, &fe, None, &gre, lab2).unwrap();
                let acc = zkp.verify_decryption(&ye, &fe, &me, &gre, &generic, &label).unwrap_or(false);
                v.h.check(!(acc && strict), || format!("a generic Chaum-Pedersen proof with a crafted label is accepted as a decryption proof for mhr={:x} on {}", mhr, tok));
                let bound = zkp.decryption_proof(&xe, &ye, &fe, &me, &gre, &label).unwrap();
                let acc = zkp.cp_verify(&ye, &fe, None, &gre, &bound, lab2);
                v.h.check(!(acc && strict), || format!("a decryption proof for mhr={:x} is accepted as a generic Chaum-Pedersen proof with a crafted label on {}", mhr, tok));
            }
        }
}

pub fn run_c06<C: NatCtx>(v: &mut Env<C>) {
    let (p, q, g) = (v.p.clone(), v.q.clone(), v.g.clone());
    let quick = v.h.tier == Tier::Quick;
    let ctx = v.ctx.clone();
    let zkp = Zkp::new(&ctx);
    if v.small {
        let mem = subgroup(&p, &q);
        let qn = q.to_u64_digits()[0];
        let lim_s = if quick { 11u64 } else { 23 };
        let lim_cp = if quick { 7u64 } else { 11 };
        if p <= big(lim_s) {
            v.h.exhaustive_notes.push(format!("{}: the whole Schnorr proof space: all (g, y, t, c, s) x 2 labels", v.tok));
            // on the smallest group also non-canonical (unreduced) exponents c, s in [q, 2q)
            let xmax = if p == big(7) { 2 * qn } else { qn };
            for gb in &mem {
                for y in &mem {
                    for t in &mem {
                        for c in 0..xmax {
                            for s in 0..xmax {
                                sch_verify(v, &Some(gb.clone()), y, t, &big(c), &big(s), b"");
                                if gb == &g {
                                    sch_verify(v, &None, y, t, &big(c), &big(s), b"x");
                                }
                            }
                        }
                    }
                }
            }
        }
        if p <= big(lim_cp) {
            v.h.exhaustive_notes.push(format!("{}: the whole Chaum-Pedersen proof space: all (g1, g2, y1, y2, t1, t2, c, s)", v.tok));
            for g1 in &mem {
                for g2 in &mem {
                    for y1 in &mem {
                        for y2 in &mem {
                            for t1 in &mem {
                                for t2 in &mem {
                                    for c in 0..qn {
                                        for s in 0..qn {
                                            cp_verify(v, &Some(g1.clone()), g2, y1, y2, t1, t2, &big(c), &big(s), b"");
                                        }
                                    }
                                }
                            }
                        }
                    }
                }
            }
        }
        if p > big(lim_s) && p > big(47) {
            return;
        }
    }
    // a label beyond 2^24 bytes is a label like any other: a proof made for it verifies for it and NOT for its own
    // SHA-512 digest used as a label (62-bit group: a chance collision of two challenges has probability 2^-61)
    if !v.small && p.bits() < 100 {
        for len in if quick { vec![(1usize << 24) + 1] } else { vec![(1 << 24) + 1, (1 << 26) + 1] } {
            let label = vec![0xa5u8; len];
            let digest = strand::util::hash(&label);
            let x = v.rnd_exp();
            let (xe, ye) = (v.x(&x), v.e(&g.modpow(&x, &p)));
            strand::verif_hooks::load_exp_tape(vec![]);
            let tok = v.tok.clone();
            let pf = zkp.schnorr_prove(&xe, &ye, None, &label).unwrap();
            v.h.check(zkp.schnorr_verify(&ye, None, &pf, &label), || format!("honest Schnorr proof with a {}-byte label rejected on {}", len, tok));
            v.h.check(!zkp.schnorr_verify(&ye, None, &pf, &digest), || format!("a Schnorr proof made for a {}-byte label is accepted for the 64-byte label SHA-512(label) on {}", len, tok));
            let gr = v.rnd_member();
            let f = gr.modpow(&x, &p);
            let (gre, fe, me) = (v.e(&gr), v.e(&f), v.e(&gr));
            let cp = zkp.decryption_proof(&xe, &ye, &fe, &me, &gre, &label).unwrap();
            v.h.check(zkp.verify_decryption(&ye, &fe, &me, &gre, &cp, &label).unwrap_or(false), || format!("honest decryption proof with a {}-byte label rejected on {}", len, tok));
            v.h.check(!zkp.verify_decryption(&ye, &fe, &me, &gre, &cp, &digest).unwrap_or(false), || format!("a decryption proof made for a {}-byte label is accepted for the label SHA-512(label) on {}", len, tok));
        }
    }
    // adversarial families (all sizes)
    let reps = if v.small { 20 } else if quick { 3 } else { 25 };
    let strict = !v.small;
    for i in 0..reps {
        let label = v.label(i);
        let x = v.rnd_exp();
        let base = if i % 2 == 0 { None } else { Some(v.rnd_member()) };
        let bv = base.clone().unwrap_or_else(|| g.clone());
        let y = bv.modpow(&x, &p);
        let tok = v.tok.clone();
        if base.is_none() {
            cross_protocol(v, &x, &label, strict);
        }
        // (i) simulated transcript with a freely chosen challenge: equation holds, hash does not
        let (c, s) = (v.rnd_exp(), v.rnd_exp());
        let yinv_c = y.modpow(&((&q - &c) % &q), &p);
        let t = (bv.modpow(&s, &p) * yinv_c) % &p;
        let acc = sch_verify(v, &base, &y, &t, &c, &s, &label);
        v.h.check(!(acc && strict), || format!("simulated Schnorr transcript with free challenge accepted on {}", tok));
        // (ii) hash-consistent on a false statement: commitment first, then a statement without witness
        let r = v.rnd_exp();
        let t = bv.modpow(&r, &p);
        let y_false = (&y * &g) % &p;
        let c = C::x_val(&zv::schnorr_challenge(&zkp, &v.e(&bv), &v.e(&y_false), &v.e(&t), None, &label).unwrap());
        let s = (&r + &c * &x) % &q;
        let acc = sch_verify(v, &base, &y_false, &t, &c, &s, &label);
        v.h.check(!(acc && strict), || format!("hash-consistent Schnorr proof for a false statement accepted on {}", tok));
        // (iii) honest proof, then every single-part change
        let c = C::x_val(&zv::schnorr_challenge(&zkp, &v.e(&bv), &v.e(&y), &v.e(&t), None, &label).unwrap());
        let s = (&r + &c * &x) % &q;
        let acc = sch_verify(v, &base, &y, &t, &c, &s, &label);
        v.h.check(acc, || format!("honest Schnorr transcript rejected on {}", tok));
        // non-canonical challenge: c + q is a different integer, never the hash
        let acc = sch_verify(v, &base, &y, &t, &(&c + &q), &s, &label);
        v.h.check(!acc, || format!("Schnorr proof with challenge + q accepted on {}", tok));
        sch_verify(v, &base, &y, &t, &c, &(&s + &q), &label);
        let mut l2 = label.clone();
        l2.push(7);
        let changes: Vec<(&str, Option<BigUint>, BigUint, BigUint, BigUint, BigUint, Vec<u8>)> = vec![
            ("public", base.clone(), (&y * &g) % &p, t.clone(), c.clone(), s.clone(), label.clone()),
            ("commitment", base.clone(), y.clone(), (&t * &g) % &p, c.clone(), s.clone(), label.clone()),
            ("challenge", base.clone(), y.clone(), t.clone(), (&c + 1u32) % &q, s.clone(), label.clone()),
            ("response", base.clone(), y.clone(), t.clone(), c.clone(), (&s + 1u32) % &q, label.clone()),
            ("label", base.clone(), y.clone(), t.clone(), c.clone(), s.clone(), l2.clone()),
            ("base", Some((&bv * &bv) % &p), y.clone(), t.clone(), c.clone(), s.clone(), label.clone()),
        ];
        for (what, b2, y2, t2, c2, s2, lab2) in changes {
            let acc = sch_verify(v, &b2, &y2, &t2, &c2, &s2, &lab2);
            // a changed response certainly breaks the equation unless the base is the identity;
            // a changed challenge certainly breaks hash consistency
            let certain = (what == "response" && bv != big(1)) || what == "challenge";
            v.h.check(!(acc && (strict || certain)), || format!("Schnorr proof with changed {} accepted on {}", what, tok));
        }
        // commitment and response shifted consistently: accepted exactly when the commitment is not hashed
        let acc = sch_verify(v, &base, &y, &((&t * &bv) % &p), &c, &((&s + 1u32) % &q), &label);
        v.h.check(!(acc && strict), || format!("Schnorr proof with commitment*base and response+1 accepted on {}", tok));
        // Chaum-Pedersen: only one of the two equations holds, hash-consistent
        let g2 = v.rnd_member();
        let (y1, y2) = (bv.modpow(&x, &p), g2.modpow(&x, &p));
        let (t1, t2) = (bv.modpow(&r, &p), g2.modpow(&r, &p));
        let y2_false = (&y2 * &g) % &p;
        let c = C::x_val(&zv::cp_challenge(&zkp, &v.e(&bv), &v.e(&g2), &v.e(&y1), &v.e(&y2_false), &v.e(&t1), &v.e(&t2), None, &label).unwrap());
        let s = (&r + &c * &x) % &q;
        let acc = cp_verify(v, &base, &g2, &y1, &y2_false, &t1, &t2, &c, &s, &label);
        v.h.check(!(acc && strict), || format!("CP proof satisfying only the first equation accepted on {}", tok));
        let y1_false = (&y1 * &g) % &p;
        let c = C::x_val(&zv::cp_challenge(&zkp, &v.e(&bv), &v.e(&g2), &v.e(&y1_false), &v.e(&y2), &v.e(&t1), &v.e(&t2), None, &label).unwrap());
        let s = (&r + &c * &x) % &q;
        let acc = cp_verify(v, &base, &g2, &y1_false, &y2, &t1, &t2, &c, &s, &label);
        v.h.check(!(acc && strict), || format!("CP proof satisfying only the second equation accepted on {}", tok));
        // honest CP and single-part changes
        let c = C::x_val(&zv::cp_challenge(&zkp, &v.e(&bv), &v.e(&g2), &v.e(&y1), &v.e(&y2), &v.e(&t1), &v.e(&t2), None, &label).unwrap());
        let s = (&r + &c * &x) % &q;
        let acc = cp_verify(v, &base, &g2, &y1, &y2, &t1, &t2, &c, &s, &label);
        v.h.check(acc, || format!("honest CP transcript rejected on {}", tok));
        let acc = cp_verify(v, &base, &g2, &y1, &y2, &t1, &t2, &(&c + &q), &s, &label);
        v.h.check(!acc, || format!("CP proof with challenge + q accepted on {}", tok));
        // both commitments and the response shifted consistently / only one commitment with a
        // compensating statement: accepted exactly when a commitment is not hashed
        let acc = cp_verify(v, &base, &g2, &y1, &y2, &((&t1 * &bv) % &p), &((&t2 * &g2) % &p), &c, &((&s + 1u32) % &q), &label);
        v.h.check(!(acc && strict), || format!("CP proof with both commitments and the response shifted accepted on {}", tok));
        {
            // post-hoc first commitment for a FALSE y1': take the challenge for a dummy commitment1, answer
            // honestly for the second equation, then SOLVE equation 1 for commitment1. Accepted exactly
            // when commitment1 does not enter the challenge hash.
            let y1f = (&y1 * &g) % &p;
            let cf = C::x_val(&zv::cp_challenge(&zkp, &v.e(&bv), &v.e(&g2), &v.e(&y1f), &v.e(&y2), &v.e(&t1), &v.e(&t2), None, &label).unwrap());
            let sf = (&r + &cf * &x) % &q;
            let t1f = (bv.modpow(&sf, &p) * y1f.modpow(&((&q - (&cf % &q)) % &q), &p)) % &p;
            let acc = cp_verify(v, &base, &g2, &y1f, &y2, &t1f, &t2, &cf, &sf, &label);
            v.h.check(!(acc && strict && t1f != t1), || format!("CP forgery with a post-hoc first commitment accepted on {}", tok));
        }
        // cancelling errors: equation 1 off by a factor u, equation 2 off by 1/u, hash-consistent
        {
            let u = v.rnd_member();
            let uinv = u.modpow(&(&q - 1u32), &p);
            let (y1c, y2c) = ((&y1 * &u) % &p, (&y2 * &uinv) % &p);
            let cc = C::x_val(&zv::cp_challenge(&zkp, &v.e(&bv), &v.e(&g2), &v.e(&y1c), &v.e(&y2c), &v.e(&t1), &v.e(&t2), None, &label).unwrap());
            let sc = (&r + &cc * &x) % &q;
            let acc = cp_verify(v, &base, &g2, &y1c, &y2c, &t1, &t2, &cc, &sc, &label);
            v.h.check(!(acc && strict && u != big(1)), || format!("CP proof whose two equations fail by cancelling factors accepted on {}", tok));
        }
        let acc = cp_verify(v, &base, &g2, &y1, &y2, &t1, &((&t2 * &g) % &p), &c, &s, &label);
        v.h.check(!(acc && strict), || format!("CP proof with changed commitment2 accepted on {}", tok));
        let acc = cp_verify(v, &base, &((&g2 * &g) % &p), &y1, &y2, &t1, &t2, &c, &s, &label);
        v.h.check(!(acc && strict), || format!("CP proof with changed g2 accepted on {}", tok));
        let acc = cp_verify(v, &base, &g2, &y1, &y2, &t1, &t2, &c, &((&s + 1u32) % &q), &label);
        v.h.check(!(acc && (strict || bv != big(1) || g2 != big(1))), || format!("CP proof with changed response accepted on {}", tok));
        // ciphertext-bound: the other component (mhr) and the label are bound
        let key = PrivateKey::from(&v.x(&x), &ctx);
        let m = v.rnd_member();
        let ct: Ciphertext<C> = key.get_pk().encrypt_with_randomness(&v.e(&m), &v.x(&r));
        let nonce = v.rnd_exp();
        load_tape(&[nonce.clone()]);
        let pf = zkp.encryption_popk(&v.x(&r), &ct.mhr, &ct.gr, &label).unwrap();
        strand::verif_hooks::load_exp_tape(vec![]);
        let (mhr, gr) = (C::e_val(&ct.mhr), C::e_val(&ct.gr));
        let vpf = v.vschnorr(&pf);
        for (what, mhr2, lab2) in [("none", mhr.clone(), label.clone()), ("mhr", (&mhr * &g) % &p, label.clone()), ("label", mhr.clone(), l2.clone())] {
            let mut acc = false;
            let mhr2e = v.e(&mhr2);
            v.case("popk_verify", vec![n(&mhr2), n(&gr), vpf.clone(), b(&lab2)], || {
                acc = zkp.encryption_popk_verify(&mhr2e, &ct.gr, &pf, &lab2).unwrap_or(false);
                Out::Ok(Val::Bool(acc))
            });
            if what == "none" {
                v.h.check(acc, || format!("honest popk rejected on {}", tok));
            } else {
                v.h.check(!(acc && strict), || format!("popk with changed {} accepted on {}", what, tok));
            }
        }
    }
}

/// verify_decryption on arbitrary values against the reference predicate
#[allow(clippy::too_many_arguments)]
pub fn dverify_case<C: NatCtx>(v: &mut Env<C>, pk: &BigUint, f: &BigUint, mhr: &BigUint, gr: &BigUint, t1: &BigUint, t2: &BigUint, c: &BigUint, s: &BigUint, label: &[u8]) -> bool {
    let ctx = v.ctx.clone();
    let zkp = Zkp::new(&ctx);
    let pf = mk_cp::<C>(t1, t2, c, s);
    let (pke, fe, mhre, gre) = (v.e(pk), v.e(f), v.e(mhr), v.e(gr));
    let mut got = false;
    let out = v.case("dverify", vec![n(pk), n(f), n(mhr), n(gr), vc(t1, t2, c, s), b(label)], || {
        got = zkp.verify_decryption(&pke, &fe, &mhre, &gre, &pf, label).unwrap_or(false);
        Out::Ok(Val::Bool(got))
    });
    let (p, g) = (v.p.clone(), v.g.clone());
    let tok = v.tok.clone();
    if out == Out::Panic {
        v.h.check(false, || format!("verify_decryption panicked on {}", tok));
        return false;
    }
    let h = zv::cp_challenge(&zkp, &v.e(&g), &gre, &pke, &fe, &v.e(t1), &v.e(t2), Some(&mhre), label).map(|x| C::x_val(&x));
    let reference = match h {
        Ok(h) => h == *c && g.modpow(s, &p) == (t1 * pk.modpow(c, &p)) % &p && gr.modpow(s, &p) == (t2 * f.modpow(c, &p)) % &p,
        Err(_) => false,
    };
    v.h.check(got == reference, || format!("verify_decryption decision {} differs from the reference predicate {} on {} pk={:x} f={:x} mhr={:x} gr={:x} t1={:x} t2={:x} c={:x} s={:x}", got, reference, tok, pk, f, mhr, gr, t1, t2, c, s));
    got
}

pub fn run_c07<C: NatCtx>(v: &mut Env<C>) {
    let (p, q, g) = (v.p.clone(), v.q.clone(), v.g.clone());
    let quick = v.h.tier == Tier::Quick;
    let ctx = v.ctx.clone();
    let zkp = Zkp::new(&ctx);
    let strict = !v.small;
    let tok = v.tok.clone();
    if v.small && p <= big(if quick { 23 } else { 59 }) {
        // all (sk, gr, wrong factor): dividing by the true factor equals decryption; wrong factors differ
        let mem = subgroup(&p, &q);
        let qn = q.to_u64_digits()[0];
        v.h.exhaustive_notes.push(format!("{}: all (sk, gr, factor)", v.tok));
        for sk in 0..qn {
            let key = PrivateKey::from(&v.x(&big(sk)), &ctx);
            for gr in &mem {
                let c = Ciphertext::<C> { mhr: v.e(&mem[(sk as usize + 1) % mem.len()]), gr: v.e(gr) };
                let f = key.decryption_factor(&c);
                let fv = C::e_val(&f);
                let vc = v.vct(&c);
                v.case("dfactor", vec![nu(sk), vc.clone()], || Out::Ok(Val::Nat(fv.clone())));
                use strand::context::Element;
                let by_factor = c.mhr.divp(&f, &ctx).modp(&ctx);
                let dec = key.decrypt(&c);
                v.h.check(by_factor == dec, || format!("dividing by the released factor differs from decryption on {} sk={:x} gr={:x}", tok, sk, gr));
                for wrong in &mem {
                    if *wrong != fv {
                        let w = c.mhr.divp(&v.e(wrong), &ctx).modp(&ctx);
                        v.h.check(w != dec, || format!("a wrong factor yields the plaintext on {} sk={:x} gr={:x} f={:x}", tok, sk, gr, wrong));
                    }
                }
            }
        }
    }
    if v.small && p <= big(if quick { 7 } else { 11 }) {
        // the whole space of verify_decryption: all (pk, factor, gr, t1, t2, c, s), mhr in 2 values
        let mem = subgroup(&p, &q);
        let qn = q.to_u64_digits()[0];
        v.h.exhaustive_notes.push(format!("{}: the whole verify_decryption space: all (pk, factor, gr, t1, t2, c, s) x 2 mhr", v.tok));
        for pkv in &mem {
            for f in &mem {
                for gr in &mem {
                    for t1 in &mem {
                        for t2 in &mem {
                            for c in 0..qn {
                                for s in 0..qn {
                                    for mhr in [&mem[0], &mem[mem.len() - 1]] {
                                        dverify_case(v, pkv, f, mhr, gr, t1, t2, &big(c), &big(s), b"d");
                                    }
                                }
                            }
                        }
                    }
                }
            }
        }
    }
    let reps = if v.small { 6 } else if quick { 2 } else { 10 };
    for i in 0..reps {
        let label = v.label(i);
        // a key holder releases a WRONG factor with a proof whose two equation errors cancel
        {
            let (x, yy, r0) = (v.rnd_exp(), v.rnd_exp(), v.rnd_exp());
            let pkx = g.modpow(&x, &p);
            let gr = v.rnd_member();
            let mhr = v.rnd_member();
            // equation 1 (base g, public pk) is off by g^(x-yy)... choose factor so that errors cancel in a product check
            let u = (pkx.clone() * g.modpow(&((&q - &yy) % &q), &p)) % &p; // pk / g^yy
            let f_wrong = (gr.modpow(&yy, &p) * &u) % &p; // gr^yy * u  (true factor is gr^x)
            let (t1, t2) = (g.modpow(&r0, &p), gr.modpow(&r0, &p));
            let c = C::x_val(&zv::cp_challenge(&zkp, &v.e(&g), &v.e(&gr), &v.e(&pkx), &v.e(&f_wrong), &v.e(&t1), &v.e(&t2), Some(&v.e(&mhr)), &label).unwrap());
            let s = (&r0 + &c * &yy) % &q;
            let acc = dverify_case(v, &pkx, &f_wrong, &mhr, &gr, &t1, &t2, &c, &s, &label);
            let truef = gr.modpow(&x, &p);
            v.h.check(!(acc && strict && f_wrong != truef), || format!("a wrong decryption factor with cancelling equation errors was accepted on {}", tok));
        }
        // adaptive forgeries of a WRONG factor that succeed exactly when one part of the statement does not
        // enter the challenge hash: solve one verification equation for the unbound part AFTER the challenge
        {
            let (x, yy, r0) = (v.rnd_exp(), v.rnd_exp(), v.rnd_exp());
            let pkx = g.modpow(&x, &p);
            let gr = v.rnd_member();
            let mhr = v.rnd_member();
            let truef = gr.modpow(&x, &p);
            let inv = |a: &BigUint| a.modpow(&(&q - 1u32), &p); // a^(q-1) = a^-1 on the order-q subgroup
            let neg = |c: &BigUint| (&q - (c % &q)) % &q;
            // (a) commitment1 chosen after the challenge: proof for exponent yy, factor gr^yy
            let f_a = gr.modpow(&yy, &p);
            let t2 = gr.modpow(&r0, &p);
            let dummy = v.rnd_member();
            let c = C::x_val(&zv::cp_challenge(&zkp, &v.e(&g), &v.e(&gr), &v.e(&pkx), &v.e(&f_a), &v.e(&dummy), &v.e(&t2), Some(&v.e(&mhr)), &label).unwrap());
            let s = (&r0 + &c * &yy) % &q;
            let t1 = (g.modpow(&s, &p) * pkx.modpow(&neg(&c), &p)) % &p;
            let acc = dverify_case(v, &pkx, &f_a, &mhr, &gr, &t1, &t2, &c, &s, &label);
            v.h.check(!(acc && strict && f_a != truef), || format!("a wrong decryption factor was accepted with a first commitment computed after the challenge on {} (pk={:x} gr={:x} factor={:x} true factor={:x})", tok, pkx, gr, f_a, truef));
            // (b) commitment2 chosen after the challenge: proof for the true x, arbitrary wrong factor
            let f_b = (&truef * &g) % &p;
            let t1 = g.modpow(&r0, &p);
            let c = C::x_val(&zv::cp_challenge(&zkp, &v.e(&g), &v.e(&gr), &v.e(&pkx), &v.e(&f_b), &v.e(&t1), &v.e(&dummy), Some(&v.e(&mhr)), &label).unwrap());
            let s = (&r0 + &c * &x) % &q;
            let t2 = (gr.modpow(&s, &p) * f_b.modpow(&neg(&c), &p)) % &p;
            let acc = dverify_case(v, &pkx, &f_b, &mhr, &gr, &t1, &t2, &c, &s, &label);
            v.h.check(!(acc && strict), || format!("a wrong decryption factor was accepted with a second commitment computed after the challenge on {} (pk={:x} gr={:x} factor={:x} true factor={:x})", tok, pkx, gr, f_b, truef));
            // (c) the factor itself chosen after the challenge (it would have to be unbound): honest first equation,
            // arbitrary second commitment, factor := (gr^s / t2)^(1/c)
            let t1 = g.modpow(&r0, &p);
            let t2 = v.rnd_member();
            let c = C::x_val(&zv::cp_challenge(&zkp, &v.e(&g), &v.e(&gr), &v.e(&pkx), &v.e(&dummy), &v.e(&t1), &v.e(&t2), Some(&v.e(&mhr)), &label).unwrap());
            if c != big(0) {
                let s = (&r0 + &c * &x) % &q;
                let cinv = c.modpow(&(&q - 2u32), &q);
                let f_c = ((gr.modpow(&s, &p) * inv(&t2)) % &p).modpow(&cinv, &p);
                let acc = dverify_case(v, &pkx, &f_c, &mhr, &gr, &t1, &t2, &c, &s, &label);
                v.h.check(!(acc && strict && f_c != truef), || format!("a wrong decryption factor computed after the challenge was accepted on {} (pk={:x} gr={:x} factor={:x} true factor={:x})", tok, pkx, gr, f_c, truef));
            }
        }
        let sk = if i == 0 { big(0) } else if i == 1 { &q - 1u32 } else { v.rnd_exp() };
        let key = PrivateKey::from(&v.x(&sk), &ctx);
        let pkv = C::e_val(key.pk_element());
        let km = strand::verif_hooks::KeymakerV::from_sk(PrivateKey::from(&v.x(&sk), &ctx), &ctx);
        let max_batch = if quick { 4 } else if v.small { 24 } else { 8 };
        for size in 1..=max_batch {
            // honest batch
            let mut cts = vec![];
            let mut fs = vec![];
            let mut pfs = vec![];
            for k in 0..size {
                let c = if k % 3 == 2 { Ciphertext::<C> { mhr: { let t_ = v.rnd_member(); C::e_raw(&t_) }, gr: { let t_ = v.rnd_member(); C::e_raw(&t_) } } } else { key.get_pk().encrypt_with_randomness(&{ let t_ = v.rnd_member(); C::e_raw(&t_) }, &{ let t_ = v.rnd_exp(); C::x_raw(&t_) }) };
                let nonce = v.rnd_exp();
                load_tape(&[nonce.clone()]);
                let mut got = None;
                let cc = c.clone();
                v.case("km_dfactor", vec![n(&sk), n(&pkv), v.vct(&c), b(&label), n(&nonce)], || match km.decryption_factor(&cc, &label) {
                    Ok((f, pf)) => {
                        let o = l(vec![Val::Nat(C::e_val(&f)), l(vec![Val::Nat(C::e_val(&pf.commitment1)), Val::Nat(C::e_val(&pf.commitment2)), Val::Nat(C::x_val(&pf.challenge)), Val::Nat(C::x_val(&pf.response))])]);
                        got = Some((f, pf));
                        Out::Ok(o)
                    }
                    Err(_) => Out::Err,
                });
                let Some((f, pf)) = got else { return };
                cts.push(c);
                fs.push(f);
                pfs.push(pf);
            }
            let batch = |v: &mut Env<C>, cts: &[Ciphertext<C>], fs: &[C::E], pfs: &[ChaumPedersen<C>], pkx: &BigUint, lab: &[u8]| -> Out {
                let args = vec![n(pkx), l(cts.iter().map(|c| v.vct(c)).collect()), l(fs.iter().map(|f| v.ve(f)).collect()), l(pfs.iter().map(|p| v.vcp(p)).collect()), b(lab)];
                let pke = v.e(pkx);
                let ctx = v.ctx.clone();
                v.case("km_verify_factors", args, || match strand::verif_hooks::KeymakerV::verify_decryption_factors(&ctx, &pke, cts, fs, pfs, lab) {
                    Ok(r) => Out::Ok(Val::Bool(r)),
                    Err(_) => Out::Err,
                })
            };
            let out = batch(v, &cts, &fs, &pfs, &pkv, &label);
            v.h.check(out == Out::Ok(Val::Bool(true)), || format!("honest batch of {} factor/proof pairs rejected on {} sk={:x}", size, tok, sk));
            // one invalid pair at every position
            for pos in 0..size {
                use strand::context::Element;
                let mut f2 = fs.clone();
                f2[pos] = f2[pos].mul(&v.e(&g)).modp(&ctx);
                let out = batch(v, &cts, &f2, &pfs, &pkv, &label);
                v.h.check(!(out == Out::Ok(Val::Bool(true)) && strict) && out != Out::Panic, || format!("batch with wrong factor at position {} of {} accepted on {}", pos, size, tok));
                if size > 1 {
                    // proof made for another ciphertext
                    let mut pf2: Vec<ChaumPedersen<C>> = pfs.iter().map(|p| mk_cp::<C>(&C::e_val(&p.commitment1), &C::e_val(&p.commitment2), &C::x_val(&p.challenge), &C::x_val(&p.response))).collect();
                    let other = (pos + 1) % size;
                    pf2[pos] = mk_cp::<C>(&C::e_val(&pfs[other].commitment1), &C::e_val(&pfs[other].commitment2), &C::x_val(&pfs[other].challenge), &C::x_val(&pfs[other].response));
                    if cts[pos] != cts[other] {
                        let out = batch(v, &cts, &fs, &pf2, &pkv, &label);
                        v.h.check(!(out == Out::Ok(Val::Bool(true)) && strict) && out != Out::Panic, || format!("batch with a proof for another ciphertext at position {} of {} accepted on {}", pos, size, tok));
                    }
                }
            }
            // two COORDINATED invalid pairs: pair 0 proves a wrong factor gr0^y, pair 1 a true factor, and the
            // errors of their generator-side equations (g^s = t1 * pk^c) cancel in the product over the batch;
            // each pair is invalid on its own, so the batch must be rejected whatever the group size
            if size >= 2 {
                let yy = (&sk + 1u32) % &q;
                let (r1, r2) = (v.rnd_exp(), v.rnd_exp());
                let (gr0, gr1) = (C::e_val(&cts[0].gr), C::e_val(&cts[1].gr));
                let d0 = gr0.modpow(&yy, &p);
                let (t10, t20) = (g.modpow(&r1, &p), gr0.modpow(&r1, &p));
                let c0 = C::x_val(&zv::cp_challenge(&zkp, &v.e(&g), &v.e(&gr0), &v.e(&pkv), &v.e(&d0), &v.e(&t10), &v.e(&t20), Some(&cts[0].mhr), &label).unwrap());
                let s0 = (&r1 + &c0 * &yy) % &q;
                let delta = (&c0 * ((&yy + &q - &sk) % &q)) % &q;
                let d1 = gr1.modpow(&sk, &p);
                let (t11, t21) = (g.modpow(&((&r2 + &delta) % &q), &p), gr1.modpow(&r2, &p));
                let c1 = C::x_val(&zv::cp_challenge(&zkp, &v.e(&g), &v.e(&gr1), &v.e(&pkv), &v.e(&d1), &v.e(&t11), &v.e(&t21), Some(&cts[1].mhr), &label).unwrap());
                let s1 = (&r2 + &c1 * &sk) % &q;
                if delta != big(0) {
                    let mut f2 = fs.clone();
                    f2[0] = v.e(&d0);
                    f2[1] = v.e(&d1);
                    let mut pf2: Vec<ChaumPedersen<C>> = pfs.iter().map(|p| mk_cp::<C>(&C::e_val(&p.commitment1), &C::e_val(&p.commitment2), &C::x_val(&p.challenge), &C::x_val(&p.response))).collect();
                    pf2[0] = mk_cp::<C>(&t10, &t20, &c0, &s0);
                    pf2[1] = mk_cp::<C>(&t11, &t21, &c1, &s1);
                    let out = batch(v, &cts, &f2, &pf2, &pkv, &label);
                    v.h.check(out == Out::Ok(Val::Bool(false)), || format!("a batch of {} with two coordinated invalid pairs (wrong factor {:x} for gr {:x} at position 0; generator-side errors cancelling over the batch) was not rejected: {:?} on {} sk={:x}", size, d0, gr0, out, tok, sk));
                }
            }
            // another key, another label
            let pk2 = (&pkv * &g) % &p;
            let out = batch(v, &cts, &fs, &pfs, &pk2, &label);
            v.h.check(!(out == Out::Ok(Val::Bool(true)) && strict), || format!("batch verified against another key on {}", tok));
            let mut l2 = label.clone();
            l2.push(9);
            let out = batch(v, &cts, &fs, &pfs, &pkv, &l2);
            v.h.check(!(out == Out::Ok(Val::Bool(true)) && strict), || format!("batch verified against another label on {}", tok));
        }
        // single verify_decryption with the threshold decryption_factor
        let share = v.rnd_exp();
        let vkey = g.modpow(&share, &p);
        let c = key.get_pk().encrypt_with_randomness(&{ let t_ = v.rnd_member(); C::e_raw(&t_) }, &{ let t_ = v.rnd_exp(); C::x_raw(&t_) });
        let nonce = v.rnd_exp();
        load_tape(&[nonce.clone()]);
        let mut got = None;
        v.case("th_dfactor", vec![v.vct(&c), n(&share), n(&vkey), b(&label), n(&nonce)], || {
            match strand::threshold::decryption_factor(&c, &C::x_raw(&share), &C::e_raw(&vkey), &label, ctx.clone()) {
                Ok((f, pf)) => {
                    let o = l(vec![Val::Nat(C::e_val(&f)), l(vec![Val::Nat(C::e_val(&pf.commitment1)), Val::Nat(C::e_val(&pf.commitment2)), Val::Nat(C::x_val(&pf.challenge)), Val::Nat(C::x_val(&pf.response))])]);
                    got = Some((f, pf));
                    Out::Ok(o)
                }
                Err(_) => Out::Err,
            }
        });
        if let Some((f, pf)) = got {
            let ok = zkp.verify_decryption(&C::e_raw(&vkey), &f, &c.mhr, &c.gr, &pf, &label).unwrap_or(false);
            v.h.check(ok, || format!("threshold decryption factor proof rejected on {}", tok));
        }
    }
}
