//! Correspondence harness: runs the real strand library in-process on generated inputs,
//! writes one request per line (ops.txt) with the implementation's answer (impl.txt),
//! and evaluates each property's own predicate on the implementation (props.txt).
mod alloc;
mod core;
mod ctxs;
mod env;
mod p_c01;
mod p_c05;
mod p_c15;
mod p_c18;
mod p_c19;
mod p_curve;
mod p_extra;
mod p_sig;
mod p_c04;
mod p_shuffle;
mod p_keys;
mod p_misc;
mod p_sigma;
mod p_wire;
mod val;

#[global_allocator]
static GLOBAL: alloc::Counting = alloc::Counting;

use crate::core::*;
use crate::ctxs::*;
use crate::env::Env;
use std::io::Write;
use strand::backend::malachite as mal;
use strand::backend::num_bigint as nb;

fn run_prop<C: NatCtx>(h: &mut Harness, ctx: C, builtin: bool) {
    let prop = h.prop.clone();
    let mut v = Env::new(h, ctx, builtin);
    let tok = v.tok.clone();
    v.h.comment(&format!("context {}", tok));
    let r = std::panic::catch_unwind(std::panic::AssertUnwindSafe(|| match prop.as_str() {
        "C01" => p_c01::run(&mut v),
        "C02" => p_shuffle::run_c02(&mut v),
        "C03" => p_shuffle::run_c03(&mut v),
        "C04" => p_c04::run(&mut v),
        "C05" => p_c05::run(&mut v),
        "C06" => p_sigma::run_c06(&mut v),
        "C07" => p_sigma::run_c07(&mut v),
        "C08" => p_keys::run_c08(&mut v),
        "C09" => p_keys::run_c09(&mut v),
        "C10" => p_keys::run_c10(&mut v),
        "C11" => p_wire::run_c11(&mut v),
        "C12" => p_wire::run_c12(&mut v),
        "C13" => p_wire::run_c13(&mut v),
        "C14" => p_wire::run_c14(&mut v),
        "C16" => p_misc::run_c16(&mut v),
        "C17" => p_misc::run_c17(&mut v),
        "C15" => p_c15::run(&mut v),
        "C18" => p_c18::run(&mut v),
        "C19" => p_c19::run(&mut v),
        _ => panic!("unknown property {}", prop),
    }));
    strand::verif_hooks::load_exp_tape(vec![]);
    if r.is_err() {
        h.prop_evals += 1;
        h.prop_failures.push(format!("harness panicked while exploring {} on {}", prop, tok));
    }
}

fn small_sets_for(h: &Harness) -> Vec<(u64, u64, u64)> {
    let max = match h.tier {
        Tier::Quick => 59,
        Tier::Thorough => 263,
    };
    SMALL_SETS.iter().copied().filter(|s| s.0 <= max).collect()
}

fn json_str(s: &str) -> String {
    let mut o = String::from("\"");
    for c in s.chars() {
        match c {
            '"' => o.push_str("\\\""),
            '\\' => o.push_str("\\\\"),
            '\n' => o.push_str("\\n"),
            c if (c as u32) < 0x20 => o.push_str(&format!("\\u{:04x}", c as u32)),
            c => o.push(c),
        }
    }
    o.push('"');
    o
}

fn main() {
    let args: Vec<String> = std::env::args().collect();
    if args.len() < 5 {
        eprintln!("usage: strand_harness <property> <quick|thorough> <seed> <outdir> [only-ctx-kind]");
        std::process::exit(2);
    }
    let prop = args[1].clone();
    let tier = if args[2] == "thorough" { Tier::Thorough } else { Tier::Quick };
    let seed: u64 = args[3].parse().unwrap_or(1);
    let outdir = std::path::PathBuf::from(&args[4]);
    std::fs::create_dir_all(&outdir).unwrap();
    std::panic::set_hook(Box::new(|_| {}));
    let mut h = Harness::new(&prop, tier, seed);
    if prop == "C13" {
        h.trace_path = Some(outdir.join("current_case.txt"));
    }

    // C20 (signature front-ends) has no group context: only the SIG stream runs
    if prop != "C20" {
    for (p, q, g) in small_sets_for(&h) {
        strand::verif_hooks::set_pverif(&p.to_string(), &q.to_string(), &g.to_string(), "2");
        run_prop(&mut h, nb::BigintCtx::<nb::verif::PVerif>::default(), false);
        run_prop(&mut h, mal::MalachiteCtx::<mal::verif::PVerif>::default(), false);
    }
    {
        let (p, q, g) = SET62;
        strand::verif_hooks::set_pverif(&p.to_string(), &q.to_string(), &g.to_string(), "2");
        run_prop(&mut h, nb::BigintCtx::<nb::verif::PVerif>::default(), false);
        run_prop(&mut h, mal::MalachiteCtx::<mal::verif::PVerif>::default(), false);
    }
    for (p, q, g) in MID_SETS {
        strand::verif_hooks::set_pverif(p, q, g, "2");
        run_prop(&mut h, nb::BigintCtx::<nb::verif::PVerif>::default(), false);
        run_prop(&mut h, mal::MalachiteCtx::<mal::verif::PVerif>::default(), false);
    }
    run_prop(&mut h, nb::BigintCtx::<nb::P2048>::default(), true);
    run_prop(&mut h, mal::MalachiteCtx::<mal::P2048>::default(), true);
    if std::env::var("VERIF_R255").map(|v| v != "0").unwrap_or(true) {
        p_curve::run(&mut h);
        if matches!(prop.as_str(), "C01" | "C11" | "C14" | "C15" | "C16" | "C17" | "C18") {
            p_extra::run(&mut h);
        }
    }
    } else {
        p_sig::run(&mut h);
    }

    let mut f = std::io::BufWriter::new(std::fs::File::create(outdir.join("ops.txt")).unwrap());
    for l in &h.ops {
        writeln!(f, "{}", l).unwrap();
    }
    let mut f = std::io::BufWriter::new(std::fs::File::create(outdir.join("impl.txt")).unwrap());
    for l in &h.imp {
        writeln!(f, "{}", l).unwrap();
    }
    let mut f = std::io::BufWriter::new(std::fs::File::create(outdir.join("props.txt")).unwrap());
    for l in &h.prop_failures {
        writeln!(f, "FAIL {} {}", prop, l).unwrap();
    }
    let mut meta = String::from("{\n");
    meta.push_str(&format!(" \"property\": {},\n \"seed\": {},\n \"cases\": {},\n \"prop_evals\": {},\n \"prop_failures\": {},\n", json_str(&prop), seed, h.ops.iter().filter(|l| !l.starts_with('#')).count(), h.prop_evals, h.prop_failures.len()));
    meta.push_str(" \"stats\": {");
    meta.push_str(&h.stats.iter().map(|(k, v)| format!("{}: {}", json_str(k), v)).collect::<Vec<_>>().join(", "));
    meta.push_str("},\n \"exhaustive\": [");
    meta.push_str(&h.exhaustive_notes.iter().map(|s| json_str(s)).collect::<Vec<_>>().join(", "));
    meta.push_str("],\n \"samples\": [");
    meta.push_str(&h.samples.iter().map(|s| json_str(&s.chars().take(400).collect::<String>())).collect::<Vec<_>>().join(", "));
    meta.push_str("]\n}\n");
    std::fs::write(outdir.join("meta.json"), meta).unwrap();
}
