//! Values of the line protocol (mirror of lean/Driver/Proto.lean).
use num_bigint::BigUint;
use std::fmt;

#[derive(Clone, Debug, PartialEq, Eq)]
pub enum Val {
    Nat(BigUint),
    Bytes(Vec<u8>),
    List(Vec<Val>),
    None,
    Bool(bool),
}

impl fmt::Display for Val {
    fn fmt(&self, f: &mut fmt::Formatter<'_>) -> fmt::Result {
        match self {
            Val::Nat(n) => write!(f, "n:{:x}", n),
            Val::Bytes(b) => {
                write!(f, "b:")?;
                for x in b {
                    write!(f, "{:02x}", x)?;
                }
                Ok(())
            }
            Val::List(l) => {
                write!(f, "[")?;
                for (i, v) in l.iter().enumerate() {
                    if i > 0 {
                        write!(f, ",")?;
                    }
                    write!(f, "{}", v)?;
                }
                write!(f, "]")
            }
            Val::None => write!(f, "-"),
            Val::Bool(true) => write!(f, "T"),
            Val::Bool(false) => write!(f, "F"),
        }
    }
}

#[derive(Clone, Debug, PartialEq, Eq)]
pub enum Out {
    Ok(Val),
    Err,
    Panic,
}
impl fmt::Display for Out {
    fn fmt(&self, f: &mut fmt::Formatter<'_>) -> fmt::Result {
        match self {
            Out::Ok(v) => write!(f, "ok {}", v),
            Out::Err => write!(f, "err"),
            Out::Panic => write!(f, "panic"),
        }
    }
}

pub fn n(x: &BigUint) -> Val {
    Val::Nat(x.clone())
}
pub fn nu(x: u64) -> Val {
    Val::Nat(BigUint::from(x))
}
pub fn b(x: &[u8]) -> Val {
    Val::Bytes(x.to_vec())
}
pub fn l(x: Vec<Val>) -> Val {
    Val::List(x)
}
