//! C04: the shuffle verifier on mutated, truncated, replayed and adaptively re-computed proofs.
use crate::core::*;
use crate::ctxs::NatCtx;
use crate::env::Env;
use crate::p_shuffle::*;
use crate::val::*;
use num_bigint::BigUint;
use strand::elgamal::Ciphertext;
use strand::shuffler::verif as sv;
use strand::shuffler::Shuffler;

pub struct Honest<C: NatCtx> {
    pub es: Vec<Ciphertext<C>>,
    pub eps: Vec<Ciphertext<C>>,
    pub rps: Vec<BigUint>,
    pub perm: Vec<usize>,
    pub tape: Vec<BigUint>,
    pub label: Vec<u8>,
    pub pp: PlainProof,
}

pub fn honest_full<C: NatCtx>(v: &mut Env<C>, s: &Setup<C>, nn: usize, perm: &[usize], label: &[u8], variety: usize) -> Option<Honest<C>> {
    let es = make_cts(v, s, nn, variety);
    let rs: Vec<BigUint> = (0..nn).map(|_| v.rnd_exp()).collect();
    let (eps, rps) = apply_case(v, s, &es, perm, &rs)?;
    let tape = proof_tape(v, nn, 0);
    let pp = prove_case(v, s, &es, &eps, &rps, perm, label, &tape, false)?;
    Some(Honest { es, eps, rps: rs, perm: perm.to_vec(), tape, label: label.to_vec(), pp })
}

/// run the verifier on a proof object; returns the implementation's decision
pub fn verify_case<C: NatCtx>(
    v: &mut Env<C>,
    s: &Setup<C>,
    gens: &[BigUint],
    pkv: &BigUint,
    pp: &PlainProof,
    es: &[Ciphertext<C>],
    eps: &[Ciphertext<C>],
    label: &[u8],
) -> Out {
    let ctx = v.ctx.clone();
    let gens_e: Vec<C::E> = gens.iter().map(C::e_raw).collect();
    let pk = strand::elgamal::PublicKey::from_element(&C::e_raw(pkv), &ctx);
    let _ = s;
    let pf = pp.to::<C>();
    v.case("check_proof", vec![vnats(gens), n(pkv), pp.val(), vcts(es), vcts(eps), b(label)], || {
        let sh = Shuffler::new(&pk, &gens_e, &ctx);
        match sh.check_proof(&pf, es, eps, label) {
            Ok(r) => Out::Ok(Val::Bool(r)),
            Err(_) => Out::Err,
        }
    })
}

fn expect_reject<C: NatCtx>(v: &mut Env<C>, out: &Out, strict: bool, what: impl FnOnce() -> String) {
    // a panic is never acceptable; acceptance is a violation whenever rejection is certain
    match out {
        Out::Panic => v.h.check(false, || format!("verifier panicked: {}", what())),
        Out::Ok(Val::Bool(true)) if strict => v.h.check(false, || format!("verifier ACCEPTED: {}", what())),
        _ => v.h.check(true, String::new),
    }
}

/// recompute the whole response side honestly for a (possibly modified) commitment vector:
/// what a prover who knows the witness but omits / shortens chain proofs would send
fn recompute<C: NatCtx>(v: &mut Env<C>, s: &Setup<C>, h: &Honest<C>, t_hats: Vec<BigUint>, keep_s: usize) -> PlainProof {
    let ctx = v.ctx.clone();
    let q = v.q.clone();
    let nn = h.es.len();
    let sh = Shuffler::new(&s.pk, &s.gens, &ctx);
    let cs_e: Vec<C::E> = h.pp.cs.iter().map(C::e_raw).collect();
    let ch_e: Vec<C::E> = h.pp.c_hats.iter().map(C::e_raw).collect();
    let us: Vec<BigUint> = sv::shuffle_us(&sh, &h.es, &h.eps, &cs_e, nn, &h.label).unwrap().iter().map(C::x_val).collect();
    let uprime: Vec<BigUint> = h.perm.iter().map(|&i| us[i].clone()).collect();
    let r = &h.tape[0..nn];
    let rhat = &h.tape[nn..2 * nn];
    let om = &h.tape[2 * nn..2 * nn + 4];
    let omh = &h.tape[2 * nn + 4..3 * nn + 4];
    let omp = &h.tape[3 * nn + 4..4 * nn + 4];
    let mut rs_p = vec![big(1); nn];
    for i in 0..nn {
        rs_p[h.perm[i]] = r[i].clone();
    }
    let mut vs = vec![big(1); nn];
    for i in (0..nn - 1).rev() {
        vs[i] = (&uprime[i + 1] * &vs[i + 1]) % &q;
    }
    let sum = |f: &dyn Fn(usize) -> BigUint| -> BigUint { (0..nn).map(|i| f(i)).fold(big(0), |a, b| a + b) % &q };
    let rbar = sum(&|i| rs_p[i].clone());
    let rhs = sum(&|i| &rhat[i] * &vs[i]);
    let rtil = sum(&|i| &rs_p[i] * &us[i]);
    let rpr = sum(&|i| &h.rps[i] * &us[i]);
    let mut pp = h.pp.clone();
    pp.t_hats = t_hats;
    let t = pp.to::<C>();
    let (tc, _, _, _, _, _) = sv::proof_parts(&t);
    let c = C::x_val(&sv::shuffle_challenge(&sh, &h.es, &h.eps, &cs_e, &ch_e, tc, &h.label).unwrap());
    pp.s = [(&om[0] + &c * rbar) % &q, (&om[1] + &c * rhs) % &q, (&om[2] + &c * rtil) % &q, (&om[3] + &c * rpr) % &q];
    pp.s_hats = (0..nn).map(|i| (&omh[i] + &c * &rhat[i]) % &q).take(keep_s).collect();
    pp.s_primes = (0..nn).map(|i| (&omp[i] + &c * &uprime[i]) % &q).collect();
    pp
}

fn resize(v: &[BigUint], len: usize, fill: &BigUint) -> Vec<BigUint> {
    let mut o: Vec<BigUint> = v.iter().take(len).cloned().collect();
    while o.len() < len {
        o.push(fill.clone());
    }
    o
}

pub fn run<C: NatCtx>(v: &mut Env<C>) {
    let small = v.small;
    let quick = v.h.tier == Tier::Quick;
    let strict = !small; // on tiny groups hash collisions mod q are real: the model is the oracle
    let sk = v.rnd_exp();
    let (p, q, g) = (v.p.clone(), v.q.clone(), v.g.clone());
    let sizes: Vec<usize> = if small { if quick { vec![1, 2, 3] } else { vec![1, 2, 3, 4, 5] } } else if quick { vec![2] } else { vec![1, 2, 4] };
    if small && p > big(if quick { 47 } else { 263 }) {
        return;
    }
    for nn in sizes {
        let s = setup(v, &sk, nn, b"c04");
        let perm: Vec<usize> = (0..nn).rev().collect();
        let label = v.label(nn + 1);
        let Some(h) = honest_full(v, &s, nn, &perm, &label, nn) else { continue };
        let tok = v.tok.clone();
        // ---- honest proof accepted
        let out = verify_case(v, &s, &s.gensv, &s.pkv, &h.pp, &h.es, &h.eps, &h.label);
        v.h.check(out == Out::Ok(Val::Bool(true)), || format!("honest proof not accepted on {} N={}", tok, nn));
        // ---- single-field mutations
        let bump_x = |x: &BigUint| (x + 1u32) % &q;
        let bump_e = |x: &BigUint| (x * &g) % &p;
        let mut muts: Vec<(String, PlainProof, bool)> = vec![];
        for k in 0..4 {
            let mut m = h.pp.clone();
            m.s[k] = bump_x(&m.s[k]);
            muts.push((format!("s{}+1", k + 1), m, true));
        }
        for k in 0..5 {
            let mut m = h.pp.clone();
            m.t[k] = bump_e(&m.t[k]);
            muts.push((format!("t[{}]*g", k), m, false));
        }
        for i in 0..nn {
            let mut m = h.pp.clone();
            m.s_hats[i] = bump_x(&m.s_hats[i]);
            muts.push((format!("s_hat[{}]+1", i), m, true));
            let mut m = h.pp.clone();
            m.s_primes[i] = bump_x(&m.s_primes[i]);
            muts.push((format!("s_prime[{}]+1", i), m, true));
            let mut m = h.pp.clone();
            m.t_hats[i] = bump_e(&m.t_hats[i]);
            muts.push((format!("t_hat[{}]*g", i), m, false));
            let mut m = h.pp.clone();
            m.cs[i] = bump_e(&m.cs[i]);
            muts.push((format!("cs[{}]*g", i), m, false));
            let mut m = h.pp.clone();
            m.c_hats[i] = bump_e(&m.c_hats[i]);
            muts.push((format!("c_hat[{}]*g", i), m, false));
        }
        if nn >= 2 {
            for (name, f) in [("s_hats", 0), ("s_primes", 1), ("t_hats", 2), ("cs", 3), ("c_hats", 4)] {
                let mut m = h.pp.clone();
                let vecr = match f {
                    0 => &mut m.s_hats,
                    1 => &mut m.s_primes,
                    2 => &mut m.t_hats,
                    3 => &mut m.cs,
                    _ => &mut m.c_hats,
                };
                if vecr[0] != vecr[1] {
                    vecr.swap(0, 1);
                    muts.push((format!("swap {}[0],[1]", name), m, false));
                }
            }
        }
        for (name, m, certain) in muts {
            let out = verify_case(v, &s, &s.gensv, &s.pkv, &m, &h.es, &h.eps, &h.label);
            // a changed response alone always breaks its equation; a changed commitment changes
            // the hash input, which decides on groups where collisions mod q are negligible
            expect_reject(v, &out, strict || certain, || format!("proof with {} on {} N={}", name, tok, nn));
        }
        // ---- commitment and response shifted CONSISTENTLY (equation still holds if the challenge does
        // not move): accepted exactly when that commitment is not bound by the challenge hash
        {
            let pk_inv = s.pkv.modpow(&(&q - 1u32), &p);
            let g_inv = g.modpow(&(&q - 1u32), &p);
            let mut fam: Vec<(String, PlainProof)> = vec![];
            for k in 0..3 {
                let mut m = h.pp.clone();
                m.s[k] = bump_x(&m.s[k]);
                m.t[k] = bump_e(&m.t[k]);
                fam.push((format!("s{}+1 with t{}*g", k + 1, k + 1), m));
            }
            let mut m = h.pp.clone();
            m.s[3] = bump_x(&m.s[3]);
            m.t[3] = (&m.t[3] * &pk_inv) % &p;
            m.t[4] = (&m.t[4] * &g_inv) % &p;
            fam.push(("s4+1 with t4_1/pk and t4_2/g".to_string(), m));
            for i in 0..nn {
                let mut m = h.pp.clone();
                m.s_hats[i] = bump_x(&m.s_hats[i]);
                m.t_hats[i] = bump_e(&m.t_hats[i]);
                fam.push((format!("s_hat[{}]+1 with t_hat[{}]*g", i, i), m));
            }
            for (name, m) in fam {
                let out = verify_case(v, &s, &s.gensv, &s.pkv, &m, &h.es, &h.eps, &h.label);
                expect_reject(v, &out, strict, || format!("proof with {} (consistent shift) on {} N={}", name, tok, nn));
            }
        }
        // ---- every combination of the five vector lengths in 0..N+1
        if small && nn <= (if quick { 2 } else { 3 }) {
            v.h.exhaustive_notes.push(format!("{}: all {}^5 vector-length combinations for N={}", tok, nn + 2, nn));
            let lens: Vec<usize> = (0..=nn + 1).collect();
            for &a in &lens {
                for &b_ in &lens {
                    for &c in &lens {
                        for &d in &lens {
                            for &e in &lens {
                                if [a, b_, c, d, e].iter().all(|&x| x == nn) {
                                    continue;
                                }
                                let mut m = h.pp.clone();
                                m.cs = resize(&m.cs, a, &g);
                                m.c_hats = resize(&m.c_hats, b_, &g);
                                m.t_hats = resize(&m.t_hats, c, &g);
                                m.s_hats = resize(&m.s_hats, d, &big(1));
                                m.s_primes = resize(&m.s_primes, e, &big(1));
                                let out = verify_case(v, &s, &s.gensv, &s.pkv, &m, &h.es, &h.eps, &h.label);
                                expect_reject(v, &out, true, || format!("proof with vector lengths cs={} c_hats={} t_hats={} s_hats={} s_primes={} on {} N={}", a, b_, c, d, e, tok, nn));
                            }
                        }
                    }
                }
            }
        } else {
            for (a, b_, c, d, e) in [(0, nn, nn, nn, nn), (nn, 0, nn, nn, nn), (nn, nn, 0, nn, nn), (nn, nn, nn, 0, nn), (nn, nn, nn, nn, 0), (nn + 1, nn + 1, nn + 1, nn + 1, nn + 1), (nn, nn, nn - 1, nn, nn), (nn, nn, nn + 1, nn, nn)] {
                let mut m = h.pp.clone();
                m.cs = resize(&m.cs, a, &g);
                m.c_hats = resize(&m.c_hats, b_, &g);
                m.t_hats = resize(&m.t_hats, c, &g);
                m.s_hats = resize(&m.s_hats, d, &big(1));
                m.s_primes = resize(&m.s_primes, e, &big(1));
                let out = verify_case(v, &s, &s.gensv, &s.pkv, &m, &h.es, &h.eps, &h.label);
                expect_reject(v, &out, true, || format!("proof with vector lengths cs={} c_hats={} t_hats={} s_hats={} s_primes={} on {} N={}", a, b_, c, d, e, tok, nn));
            }
        }
        // ---- omitted / shortened chain proofs, everything else recomputed consistently
        for keep in 0..nn {
            let m = recompute(v, &s, &h, h.pp.t_hats[..keep].to_vec(), nn);
            let out = verify_case(v, &s, &s.gensv, &s.pkv, &m, &h.es, &h.eps, &h.label);
            expect_reject(v, &out, true, || format!("consistent proof with only {} of {} chain proof-commitments on {}", keep, nn, tok));
            let m = recompute(v, &s, &h, h.pp.t_hats[..keep].to_vec(), keep);
            let out = verify_case(v, &s, &s.gensv, &s.pkv, &m, &h.es, &h.eps, &h.label);
            expect_reject(v, &out, true, || format!("consistent proof with only {} of {} chain proofs and responses on {}", keep, nn, tok));
        }
        // sanity of `recompute`: with the full vector it reproduces an accepted proof
        let m = recompute(v, &s, &h, h.pp.t_hats.clone(), nn);
        let out = verify_case(v, &s, &s.gensv, &s.pkv, &m, &h.es, &h.eps, &h.label);
        v.h.check(out == Out::Ok(Val::Bool(true)), || format!("recomputed full proof not accepted on {} N={}", tok, nn));
        // ---- replay against a different statement
        let other = v.rnd_member();
        let mut es2 = h.es.clone();
        es2[0] = Ciphertext { mhr: C::e_raw(&((C::e_val(&es2[0].mhr) * &g) % &p)), gr: es2[0].gr.clone() };
        let out = verify_case(v, &s, &s.gensv, &s.pkv, &h.pp, &es2, &h.eps, &h.label);
        expect_reject(v, &out, strict, || format!("replay against changed input on {} N={}", tok, nn));
        let mut ep2 = h.eps.clone();
        ep2[nn - 1] = Ciphertext { mhr: ep2[nn - 1].mhr.clone(), gr: C::e_raw(&((C::e_val(&ep2[nn - 1].gr) * &g) % &p)) };
        let out = verify_case(v, &s, &s.gensv, &s.pkv, &h.pp, &h.es, &ep2, &h.label);
        expect_reject(v, &out, strict, || format!("replay against changed output on {} N={}", tok, nn));
        let pk2 = (&s.pkv * &g) % &p;
        let out = verify_case(v, &s, &s.gensv, &pk2, &h.pp, &h.es, &h.eps, &h.label);
        expect_reject(v, &out, strict, || format!("replay against changed public key on {} N={}", tok, nn));
        let mut g2 = s.gensv.clone();
        g2[0] = (&g2[0] * &other) % &p;
        if g2[0] != s.gensv[0] {
            let out = verify_case(v, &s, &g2, &s.pkv, &h.pp, &h.es, &h.eps, &h.label);
            expect_reject(v, &out, strict, || format!("replay against changed generator h0 on {} N={}", tok, nn));
        }
        let mut g3 = s.gensv.clone();
        g3[nn] = (&g3[nn] * &g) % &p;
        let out = verify_case(v, &s, &g3, &s.pkv, &h.pp, &h.es, &h.eps, &h.label);
        expect_reject(v, &out, strict, || format!("replay against changed generator h_N on {} N={}", tok, nn));
        let mut l2 = h.label.clone();
        l2.push(1);
        let out = verify_case(v, &s, &s.gensv, &s.pkv, &h.pp, &h.es, &h.eps, &l2);
        expect_reject(v, &out, strict, || format!("replay against changed label on {} N={}", tok, nn));
        // ---- malformed statements: list lengths
        let out = verify_case(v, &s, &s.gensv, &s.pkv, &h.pp, &h.es, &h.eps[..nn - 1], &h.label);
        expect_reject(v, &out, true, || format!("output list shorter than input on {} N={}", tok, nn));
        let out = verify_case(v, &s, &s.gensv, &s.pkv, &h.pp, &[], &[], &h.label);
        expect_reject(v, &out, true, || format!("N = 0 on {}", tok));
        let out = verify_case(v, &s, &s.gensv[..nn], &s.pkv, &h.pp, &h.es, &h.eps, &h.label);
        expect_reject(v, &out, true, || format!("generator list one short on {} N={}", tok, nn));
        let out = verify_case(v, &s, &[], &s.pkv, &h.pp, &h.es, &h.eps, &h.label);
        expect_reject(v, &out, true, || format!("empty generator list on {} N={}", tok, nn));
        let mut g4 = s.gensv.clone();
        g4.push(g.clone());
        let out = verify_case(v, &s, &g4, &s.pkv, &h.pp, &h.es, &h.eps, &h.label);
        expect_reject(v, &out, true, || format!("generator list one long on {} N={}", tok, nn));
        // ---- outputs chosen AFTER the per-ciphertext challenges: multiply two outputs by D and D^(-u'_0/u'_1)
        // (D an arbitrary ciphertext): the weighted product the proof argues about is unchanged, so the
        // ordinary prover, run again with the same witness and randomness, yields a proof whose every
        // equation holds IF the u_i did not move, i.e. exactly when they do not bind the outputs
        if nn >= 2 {
            let ctx = v.ctx.clone();
            let sh = Shuffler::new(&s.pk, &s.gens, &ctx);
            let cs_e: Vec<C::E> = h.pp.cs.iter().map(C::e_raw).collect();
            let us: Vec<BigUint> = sv::shuffle_us(&sh, &h.es, &h.eps, &cs_e, nn, &h.label).unwrap().iter().map(C::x_val).collect();
            let (u0, u1) = (us[h.perm[0]].clone(), us[h.perm[1]].clone());
            if u1 != big(0) && u0 != big(0) {
                let e = (&q - (&u0 * u1.modpow(&(&q - 2u32), &q)) % &q) % &q; // -u'_0/u'_1 mod q
                let (d1, d2) = (v.rnd_member(), v.rnd_member());
                let mul = |c: &Ciphertext<C>, a: &BigUint, b_: &BigUint| Ciphertext::<C> { mhr: C::e_raw(&((C::e_val(&c.mhr) * a) % &p)), gr: C::e_raw(&((C::e_val(&c.gr) * b_) % &p)) };
                let mut forged = h.eps.clone();
                forged[0] = mul(&h.eps[0], &d1, &d2);
                forged[1] = mul(&h.eps[1], &d1.modpow(&e, &p), &d2.modpow(&e, &p));
                let rps: Vec<C::X> = h.rps.iter().map(|x| v.x(x)).collect();
                if let Some((_, pp2)) = prove_raw(v, &s, &h.es, &forged, &rps, &h.perm, &h.label, &h.tape) {
                    let out = verify_case(v, &s, &s.gensv, &s.pkv, &pp2, &h.es, &forged, &h.label);
                    let real = d1 != big(1) || d2 != big(1);
                    expect_reject(v, &out, strict && real, || format!("a proof for outputs that are NOT a re-encrypted permutation (two outputs multiplied by D = ({:x},{:x}) and D^(-u0/u1), chosen after the per-ciphertext challenges) on {} N={}", d1, d2, tok, nn));
                }
            }
        }
        // dropped / duplicated / substituted output ciphertext with the honest proof
        if nn >= 2 {
            let mut ep3 = h.eps.clone();
            ep3[0] = ep3[1].clone();
            if ep3[0] != h.eps[0] {
                let out = verify_case(v, &s, &s.gensv, &s.pkv, &h.pp, &h.es, &ep3, &h.label);
                expect_reject(v, &out, strict, || format!("duplicated output ciphertext on {} N={}", tok, nn));
            }
        }
    }
    count_wrap_family(v, &sk);
}

/// a proof failing EVERY one of its N + 5 equations (an honest proof replayed against another label), for N such
/// that the number of failing equations is exactly 256, 512 (thorough: 1024, 65536): a verdict computed from a
/// COUNT of failures must not wrap, and the verifier must not panic.  Implementation only, 62-bit group (an
/// equation holding by chance has probability 2^-61).
pub fn count_wrap_family<C: NatCtx>(v: &mut Env<C>, sk: &BigUint) {
    let small = v.small;
    let quick = v.h.tier == Tier::Quick;
    let p = v.p.clone();
    // ---- a proof failing EVERY one of its N + 5 equations (an honest proof replayed against another label), for N
    // such that the number of failing equations is exactly 256, 512 (thorough: 65536): a verdict computed from a
    // COUNT of failures must not wrap.  Implementation only, 62-bit group (an equation holding by chance has
    // probability 2^-61).
    if !small && p.bits() < 100 {
        let ctx = v.ctx.clone();
        let tok = v.tok.clone();
        for nn in if quick { vec![251usize, 507] } else { vec![251, 507, 1019, 65531] } {
            let s = setup(v, sk, nn, b"count");
            let sh = Shuffler::new(&s.pk, &s.gens, &ctx);
            strand::verif_hooks::load_exp_tape(vec![]);
            use strand::context::Ctx;
            let es: Vec<Ciphertext<C>> = (0..nn).map(|_| s.pk.encrypt(&ctx.rnd())).collect();
            let (eps, rs, perm) = sh.gen_shuffle(&es);
            let Ok(pf) = sh.gen_proof(&es, &eps, &rs, &perm, b"label-a") else {
                v.h.check(false, || format!("gen_proof failed for N = {} on {}", nn, tok));
                continue;
            };
            let honest = sh.check_proof(&pf, &es, &eps, b"label-a").unwrap_or(false);
            v.h.check(honest, || format!("honest proof for N = {} rejected on {}", nn, tok));
            let out = match std::panic::catch_unwind(std::panic::AssertUnwindSafe(|| sh.check_proof(&pf, &es, &eps, b"label-b"))) {
                Ok(Ok(r)) => Out::Ok(Val::Bool(r)),
                Ok(Err(_)) => Out::Err,
                Err(_) => Out::Panic,
            };
            expect_reject(v, &out, true, || format!("an honest proof for N = {} replayed against another label (all {} equations fail) on {}", nn, nn + 5, tok));
        }
    }
}
