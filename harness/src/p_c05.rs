//! C05: honest sigma proofs verify (prover compared nonce-by-nonce with the model).
use crate::core::*;
use crate::ctxs::NatCtx;
use crate::env::Env;
use crate::val::*;
use num_bigint::BigUint;
use strand::elgamal::{Ciphertext, PrivateKey};
use strand::serialization::{StrandDeserialize, StrandSerialize};
use strand::zkp::{ChaumPedersen, Schnorr, Zkp};

pub fn opt_e(g: &Option<BigUint>) -> Val {
    match g {
        Some(x) => n(x),
        None => Val::None,
    }
}

/// Schnorr with secret x, nonce r, optional explicit base
pub fn schnorr_case<C: NatCtx>(v: &mut Env<C>, x: &BigUint, r: &BigUint, base: &Option<BigUint>, label: &[u8], wire: bool) {
    let ctx = v.ctx.clone();
    let zkp = Zkp::new(&ctx);
    let ge = base.as_ref().map(|b| v.e(b));
    let basee = ge.clone().unwrap_or_else(|| ctx.generator().clone());
    let xx = v.x(x);
    let y = ctx.emod_pow(&basee, &xx);
    let yv = C::e_val(&y);
    load_tape(&[r.clone()]);
    let mut proof: Option<Schnorr<C>> = None;
    v.case("sch_prove", vec![n(x), n(&yv), opt_e(base), b(label), n(r)], || {
        match zkp.schnorr_prove(&xx, &y, ge.as_ref(), label) {
            Ok(pf) => {
                let out = l(vec![Val::Nat(C::e_val(&pf.commitment)), Val::Nat(C::x_val(&pf.challenge)), Val::Nat(C::x_val(&pf.response))]);
                proof = Some(pf);
                Out::Ok(out)
            }
            Err(_) => Out::Err,
        }
    });
    let tok = v.tok.clone();
    let Some(pf) = proof else {
        v.h.check(false, || format!("schnorr_prove failed on {} x={:x} r={:x}", tok, x, r));
        return;
    };
    let vpf = v.vschnorr(&pf);
    let mut ok = false;
    v.case("sch_verify", vec![n(&yv), opt_e(base), vpf.clone(), b(label)], || {
        ok = zkp.schnorr_verify(&y, ge.as_ref(), &pf, label);
        Out::Ok(Val::Bool(ok))
    });
    v.h.check(ok, || format!("honest Schnorr proof rejected on {} x={:x} nonce={:x} base={:?} label={:?}", tok, x, r, base, label));
    // default base <-> explicit generator interchange
    let gen = ctx.generator().clone();
    let other: Option<C::E> = match base {
        None => Some(gen.clone()),
        Some(b) if *b == C::e_val(&gen) => None,
        _ => return,
    };
    let ok2 = zkp.schnorr_verify(&y, other.as_ref(), &pf, label);
    v.h.check(ok2, || format!("Schnorr default/explicit base interchange fails on {} x={:x} nonce={:x}", tok, x, r));
    if wire {
        let bytes = pf.strand_serialize().unwrap();
        match Schnorr::<C>::strand_deserialize(&bytes) {
            Ok(back) => {
                let ok3 = zkp.schnorr_verify(&y, ge.as_ref(), &back, label);
                v.h.check(ok3, || format!("Schnorr proof rejected after wire round trip on {} x={:x} nonce={:x}", tok, x, r));
            }
            Err(_) => v.h.check(false, || format!("Schnorr proof does not deserialise on {} x={:x} nonce={:x}", tok, x, r)),
        }
    }
}

pub fn cp_case<C: NatCtx>(v: &mut Env<C>, x: &BigUint, r: &BigUint, g1: &Option<BigUint>, g2: &BigUint, label: &[u8], wire: bool) {
    let ctx = v.ctx.clone();
    let zkp = Zkp::new(&ctx);
    let g1e = g1.as_ref().map(|b| v.e(b));
    let base1 = g1e.clone().unwrap_or_else(|| ctx.generator().clone());
    let g2e = v.e(g2);
    let xx = v.x(x);
    let y1 = ctx.emod_pow(&base1, &xx);
    let y2 = ctx.emod_pow(&g2e, &xx);
    let (y1v, y2v) = (C::e_val(&y1), C::e_val(&y2));
    load_tape(&[r.clone()]);
    let mut proof: Option<ChaumPedersen<C>> = None;
    v.case("cp_prove", vec![n(x), n(&y1v), n(&y2v), opt_e(g1), n(g2), b(label), n(r)], || {
        match zkp.cp_prove(&xx, &y1, &y2, g1e.as_ref(), &g2e, label) {
            Ok(pf) => {
                let out = l(vec![Val::Nat(C::e_val(&pf.commitment1)), Val::Nat(C::e_val(&pf.commitment2)), Val::Nat(C::x_val(&pf.challenge)), Val::Nat(C::x_val(&pf.response))]);
                proof = Some(pf);
                Out::Ok(out)
            }
            Err(_) => Out::Err,
        }
    });
    let tok = v.tok.clone();
    let Some(pf) = proof else {
        v.h.check(false, || format!("cp_prove failed on {} x={:x} r={:x}", tok, x, r));
        return;
    };
    let vpf = v.vcp(&pf);
    let mut ok = false;
    v.case("cp_verify", vec![n(&y1v), n(&y2v), opt_e(g1), n(g2), vpf, b(label)], || {
        ok = zkp.cp_verify(&y1, &y2, g1e.as_ref(), &g2e, &pf, label);
        Out::Ok(Val::Bool(ok))
    });
    v.h.check(ok, || format!("honest Chaum-Pedersen proof rejected on {} x={:x} nonce={:x} g1={:?} g2={:x}", tok, x, r, g1, g2));
    let gen = ctx.generator().clone();
    let other: Option<Option<C::E>> = match g1 {
        None => Some(Some(gen.clone())),
        Some(b) if *b == C::e_val(&gen) => Some(None),
        _ => None,
    };
    if let Some(o) = other {
        let ok2 = zkp.cp_verify(&y1, &y2, o.as_ref(), &g2e, &pf, label);
        v.h.check(ok2, || format!("CP default/explicit base interchange fails on {} x={:x} nonce={:x}", tok, x, r));
    }
    if wire {
        let bytes = pf.strand_serialize().unwrap();
        match ChaumPedersen::<C>::strand_deserialize(&bytes) {
            Ok(back) => {
                let ok3 = zkp.cp_verify(&y1, &y2, g1e.as_ref(), &g2e, &back, label);
                v.h.check(ok3, || format!("CP proof rejected after wire round trip on {} x={:x} nonce={:x}", tok, x, r));
            }
            Err(_) => v.h.check(false, || format!("CP proof does not deserialise on {} x={:x} nonce={:x}", tok, x, r)),
        }
    }
}

/// ciphertext-bound proofs: plaintext knowledge and correct decryption
pub fn bound_case<C: NatCtx>(v: &mut Env<C>, sk: &BigUint, m: &BigUint, r: &BigUint, nonce: &BigUint, label: &[u8]) {
    let ctx = v.ctx.clone();
    let zkp = Zkp::new(&ctx);
    let key = PrivateKey::from(&v.x(sk), &ctx);
    let pk = key.get_pk();
    let pkv = C::e_val(key.pk_element());
    let c: Ciphertext<C> = pk.encrypt_with_randomness(&v.e(m), &v.x(r));
    let (mhr, gr) = (C::e_val(&c.mhr), C::e_val(&c.gr));
    let tok = v.tok.clone();
    // popk
    load_tape(&[nonce.clone()]);
    let rx = v.x(r);
    let mut proof = None;
    v.case("popk", vec![n(r), n(&mhr), n(&gr), b(label), n(nonce)], || match zkp.encryption_popk(&rx, &c.mhr, &c.gr, label) {
        Ok(pf) => {
            let out = l(vec![Val::Nat(C::e_val(&pf.commitment)), Val::Nat(C::x_val(&pf.challenge)), Val::Nat(C::x_val(&pf.response))]);
            proof = Some(pf);
            Out::Ok(out)
        }
        Err(_) => Out::Err,
    });
    if let Some(pf) = proof {
        let vpf = v.vschnorr(&pf);
        let mut ok = false;
        v.case("popk_verify", vec![n(&mhr), n(&gr), vpf, b(label)], || {
            ok = zkp.encryption_popk_verify(&c.mhr, &c.gr, &pf, label).unwrap_or(false);
            Out::Ok(Val::Bool(ok))
        });
        v.h.check(ok, || format!("honest plaintext-knowledge proof rejected on {} sk={:x} m={:x} r={:x} nonce={:x}", tok, sk, m, r, nonce));
    } else {
        v.h.check(false, || format!("encryption_popk failed on {}", tok));
    }
    // decryption proof
    let f = key.decryption_factor(&c);
    let fv = C::e_val(&f);
    load_tape(&[nonce.clone()]);
    let skx = v.x(sk);
    let mut proof = None;
    v.case("dproof", vec![n(sk), n(&pkv), n(&fv), n(&mhr), n(&gr), b(label), n(nonce)], || {
        match zkp.decryption_proof(&skx, key.pk_element(), &f, &c.mhr, &c.gr, label) {
            Ok(pf) => {
                let out = l(vec![Val::Nat(C::e_val(&pf.commitment1)), Val::Nat(C::e_val(&pf.commitment2)), Val::Nat(C::x_val(&pf.challenge)), Val::Nat(C::x_val(&pf.response))]);
                proof = Some(pf);
                Out::Ok(out)
            }
            Err(_) => Out::Err,
        }
    });
    if let Some(pf) = proof {
        let vpf = v.vcp(&pf);
        let mut ok = false;
        v.case("dverify", vec![n(&pkv), n(&fv), n(&mhr), n(&gr), vpf, b(label)], || {
            ok = zkp.verify_decryption(key.pk_element(), &f, &c.mhr, &c.gr, &pf, label).unwrap_or(false);
            Out::Ok(Val::Bool(ok))
        });
        v.h.check(ok, || format!("honest decryption proof rejected on {} sk={:x} m={:x} r={:x} nonce={:x}", tok, sk, m, r, nonce));
    } else {
        v.h.check(false, || format!("decryption_proof failed on {}", tok));
    }
}

pub fn run<C: NatCtx>(v: &mut Env<C>) {
    let q = v.q.clone();
    let gv = v.g.clone();
    if v.small {
        let limit = if v.h.tier == Tier::Quick { 47u64 } else { 167u64 };
        if v.p <= big(limit) {
            let qn = q.to_u64_digits()[0];
            let mem = subgroup(&v.p, &q);
            v.h.exhaustive_notes.push(format!("{}: all (x, nonce) in Z_q^2 with default base, explicit generator and every other base", v.tok));
            for x in 0..qn {
                for r in 0..qn {
                    let label = v.label((x + r) as usize);
                    schnorr_case(v, &big(x), &big(r), &None, &label, (x + r) % 7 == 0);
                    schnorr_case(v, &big(x), &big(r), &Some(gv.clone()), &label, false);
                    let g2 = mem[((x * 5 + r) as usize) % mem.len()].clone();
                    cp_case(v, &big(x), &big(r), &None, &g2, &label, (x + r) % 7 == 1);
                    cp_case(v, &big(x), &big(r), &Some(gv.clone()), &g2, &label, false);
                }
            }
            // every base (incl. the identity) for a slice of (x, nonce)
            for base in &mem {
                for x in [0, 1, qn - 1, qn / 2] {
                    for r in [0, 1, qn - 1, qn / 3] {
                        schnorr_case(v, &big(x), &big(r), &Some(base.clone()), b"L", false);
                        cp_case(v, &big(x), &big(r), &Some(base.clone()), &mem[mem.len() - 1], b"", false);
                        cp_case(v, &big(x), &big(r), &None, base, b"", false);
                    }
                }
            }
            for sk in 0..qn {
                for r in [0, 1, qn - 1, (sk * 7 + 2) % qn] {
                    let m = mem[((sk * 3 + r) as usize) % mem.len()].clone();
                    let label = v.label((sk + r) as usize);
                    bound_case(v, &big(sk), &m, &big(r), &big((sk + 2 * r + 1) % qn), &label);
                    bound_case(v, &big(sk), &m, &big(r), &big(0), &label);
                }
            }
            return;
        }
    }
    let nr = match (v.small, v.h.tier) {
        (true, _) => 30,
        (false, Tier::Quick) => 3,
        (false, Tier::Thorough) => 40,
    };
    let xs = v.exps(nr);
    let rs = v.exps(nr);
    let bases = v.members(2);
    for (i, x) in xs.iter().enumerate() {
        for (j, r) in rs.iter().enumerate() {
            if i < 3 || j < 3 || i == j {
                let label = v.label(i + j);
                schnorr_case(v, x, r, &None, &label, j == 0);
                if i == j || i + j < 3 {
                    schnorr_case(v, x, r, &Some(gv.clone()), &label, false);
                    let g2 = bases[(i + j) % bases.len()].clone();
                    cp_case(v, x, r, &None, &g2, &label, j == 0);
                    cp_case(v, x, r, &Some(bases[(i + 1) % bases.len()].clone()), &g2, &label, false);
                    let m = bases[(i + 2 * j) % bases.len()].clone();
                    bound_case(v, x, &m, r, &rs[(i + 3) % rs.len()], &label);
                }
            }
        }
    }
}
