//! Extra boundary cases for the Ristretto back-end (ctx token R255) that p_curve does not
//! generate; each family runs under the property it belongs to:
//!   C15/C16 hashing (SHA-512 block boundaries), small multiples, identity arithmetic
//!   C17     generators with seeds across the SHAKE-256 rate
//!   C18     samplers at exact / short tape lengths, from_uniform_bytes on structured input
//!   C14     plaintext encoding on structured plaintexts
//!   C01     exponent transport (encrypt_exp / decrypt_exp) incl. malformed transports
//!   C11     decoding of special field elements / scalars
use crate::core::*;
use crate::val::*;
use curve25519_dalek::digest::Digest;
use num_bigint::BigUint;
use strand::backend::ristretto::RistrettoCtx;
use strand::context::{Ctx, Element, Exponent};
use strand::elgamal::{Ciphertext, PrivateKey, PublicKey};
use strand::serialization::*;
use strand::verif_hooks as vh;

const TOK: &str = "R255";
type C = RistrettoCtx;
type X = <C as Ctx>::X;

fn eb<T: StrandSerialize>(e: &T) -> Vec<u8> {
    e.strand_serialize().unwrap()
}
fn xn(x: &X) -> Val {
    Val::Nat(BigUint::from_bytes_le(&eb(x)))
}
fn le32(x: &BigUint) -> Vec<u8> {
    let mut v = x.to_bytes_le();
    v.resize(32, 0);
    v
}
fn p25519() -> BigUint {
    (BigUint::from(1u32) << 255) - 19u32
}
fn with_tape(bytes: &[u8], f: &dyn Fn() -> Val) -> Out {
    vh::load_byte_tape(Some(bytes.to_vec()));
    let res = std::panic::catch_unwind(std::panic::AssertUnwindSafe(f));
    let left = vh::byte_tape_len().unwrap_or(0);
    vh::load_byte_tape(None);
    match res {
        Ok(v) => Out::Ok(l(vec![v, nu((bytes.len() - left) as u64)])),
        Err(_) => Out::Panic,
    }
}

fn hashing(h: &mut Harness) {
    let ctx = RistrettoCtx;
    let quick = h.tier == Tier::Quick;
    // message lengths across the SHA-512 padding boundaries (111/112, 127/128, 239/240)
    let lens: Vec<usize> = if quick { vec![0, 1, 55, 56, 63, 64, 110, 111, 112, 113, 127, 128, 129, 238, 239, 240, 241, 255, 256, 299] } else { (0..300).collect() };
    for len in lens {
        let bs = h.rng.bytes(len);
        h.case(TOK, "h2x", vec![b(&bs)], || Out::Ok(xn(&ctx.hash_to_exp(&bs))));
        h.case(TOK, "sha512", vec![b(&bs)], || {
            let mut hh = strand::util::hasher();
            hh.update(&bs);
            Out::Ok(b(&hh.finalize()))
        });
    }
}

fn arithmetic(h: &mut Harness) {
    let ctx = RistrettoCtx;
    for k in 0..=20u64 {
        let x = ctx.exp_from_u64(k);
        h.case(TOK, "gpow", vec![xn(&x)], || Out::Ok(b(&eb(&ctx.gmod_pow(&x)))));
        h.case(TOK, "epow", vec![b(&eb(ctx.generator())), xn(&x)], || Out::Ok(b(&eb(&ctx.emod_pow(ctx.generator(), &x)))));
    }
    let id = <C as Ctx>::E::mul_identity();
    let g = ctx.generator().clone();
    let zero = X::add_identity();
    let five = ctx.exp_from_u64(5);
    h.case(TOK, "epow", vec![b(&eb(&id)), xn(&five)], || Out::Ok(b(&eb(&ctx.emod_pow(&id, &five)))));
    h.case(TOK, "epow", vec![b(&eb(&g)), xn(&zero)], || Out::Ok(b(&eb(&ctx.emod_pow(&g, &zero)))));
    h.case(TOK, "inv", vec![b(&eb(&id))], || Out::Ok(b(&eb(&id.invp(&ctx)))));
    h.case(TOK, "div", vec![b(&eb(&g)), b(&eb(&g))], || Out::Ok(b(&eb(&g.divp(&g, &ctx)))));
    h.case(TOK, "mul", vec![b(&eb(&id)), b(&eb(&id))], || Out::Ok(b(&eb(&id.mul(&id)))));
    // Scalar::invert(0) = 0: no panic, unlike the multiplicative back-ends
    let out = h.case(TOK, "xinv", vec![xn(&zero)], || Out::Ok(xn(&zero.invq(&ctx))));
    h.check(out == Out::Ok(xn(&zero)), || "Scalar::invert(0) is not 0 on R255".to_string());
    h.case(TOK, "xdiv", vec![xn(&five), xn(&zero)], || Out::Ok(xn(&five.divq(&zero, &ctx))));
    let out = h.case(TOK, "km_combine", vec![l(vec![])], || {
        let pk = vh::KeymakerV::<C>::combine_pks(&ctx, vec![]);
        Out::Ok(b(&eb(vh::pk_element(&pk))))
    });
    h.check(out == Out::Panic, || "combine_pks of no keys does not panic on R255".to_string());
}

fn generators(h: &mut Harness) {
    let ctx = RistrettoCtx;
    let quick = h.tier == Tier::Quick;
    // seeds across the SHAKE-256 rate (136 bytes)
    let lens: Vec<usize> = if quick { vec![0, 135, 136, 137, 272] } else { vec![0, 1, 134, 135, 136, 137, 271, 272, 273, 500] };
    for len in lens {
        let seed = h.rng.bytes(len);
        let mut prev: Vec<Vec<u8>> = vec![];
        for size in [0usize, 1, 2, 3, 5] {
            let mut got = vec![];
            h.case(TOK, "gens", vec![nu(size as u64), b(&seed)], || {
                let gs: Vec<Vec<u8>> = ctx.generators(size, &seed).iter().map(|e| eb(e)).collect();
                let o = l(gs.iter().map(|e| b(e)).collect());
                got = gs;
                Out::Ok(o)
            });
            let k = prev.len().min(got.len());
            h.check(got.len() == size && prev[..k] == got[..k], || format!("generators not prefix-stable on R255 for a {}-byte seed", len));
            prev = got;
        }
    }
}

fn samplers(h: &mut Harness) {
    let ctx = RistrettoCtx;
    let quick = h.tier == Tier::Quick;
    for len in [0usize, 29, 30, 31, 63, 64, 65, 128] {
        for k in 0..(if quick { 3 } else { 20 }) {
            let mut tp = h.rng.bytes(len);
            if k == 0 {
                tp = vec![0xff; len];
            }
            if k == 1 {
                tp = vec![0; len];
            }
            let o = h.case(TOK, "rnd_exp", vec![b(&tp)], || with_tape(&tp, &|| xn(&ctx.rnd_exp())));
            h.check((o == Out::Panic) == (len < 64), || "rnd_exp does not consume exactly 64 bytes on R255".to_string());
            h.case(TOK, "rnd_elem", vec![b(&tp)], || with_tape(&tp, &|| b(&eb(&ctx.rnd()))));
            let o = h.case(TOK, "rnd_pt", vec![b(&tp)], || with_tape(&tp, &|| b(&ctx.rnd_plaintext())));
            h.check((o == Out::Panic) == (len < 30), || "rnd_plaintext does not consume exactly 30 bytes on R255".to_string());
        }
    }
    // from_uniform_bytes on structured halves: bit 255 set, values >= p, zero, equal halves
    let p = p25519();
    let mut halves: Vec<Vec<u8>> = vec![vec![0; 32], vec![0xff; 32], le32(&p), le32(&(&p - 1u32)), le32(&(&p + 1u32)), le32(&big(1)), le32(&big(2))];
    for _ in 0..(if quick { 3 } else { 20 }) {
        let mut x = h.rng.bytes(32);
        x[31] |= 0x80;
        halves.push(x);
    }
    for a in &halves {
        for c in &halves {
            let mut tp = a.clone();
            tp.extend(c);
            let o = h.case(TOK, "rnd_elem", vec![b(&tp)], || with_tape(&tp, &|| b(&eb(&ctx.rnd()))));
            if let Out::Ok(Val::List(v)) = &o {
                if let Val::Bytes(e) = &v[0] {
                    h.check(ctx.element_from_bytes(e).is_ok(), || "rnd() returned an invalid encoding on R255".to_string());
                }
            }
        }
    }
}

fn plaintexts(h: &mut Harness) {
    let ctx = RistrettoCtx;
    let quick = h.tier == Tier::Quick;
    for i in 0..(if quick { 120 } else { 600 }) {
        let mut data = [0u8; 30];
        match i % 4 {
            0 => data[i % 30] = (i / 30) as u8,
            1 => {
                data = [0xff; 30];
                data[i % 30] = (i % 251) as u8
            }
            _ => data.copy_from_slice(&h.rng.bytes(30)),
        }
        let mut enc = None;
        h.case(TOK, "encode", vec![b(&data)], || match ctx.encode(&data) {
            Ok(e) => {
                let o = b(&eb(&e));
                enc = Some(e);
                Out::Ok(o)
            }
            Err(_) => Out::Err,
        });
        match enc {
            Some(e) => {
                let o = h.case(TOK, "decode", vec![b(&eb(&e))], || Out::Ok(b(&ctx.decode(&e))));
                h.check(o == Out::Ok(b(&data)), || format!("decode(encode(p)) != p on R255 for {:02x?}", data));
            }
            None => h.check(false, || format!("encode refused the 30-byte plaintext {:02x?} on R255", data)),
        }
    }
    // decode of arbitrary group elements (not images of encode)
    for i in 0..(if quick { 10 } else { 100 }) {
        let x = ctx.exp_from_u64(i as u64 * 0x1234567);
        let e = ctx.gmod_pow(&x);
        h.case(TOK, "decode", vec![b(&eb(&e))], || Out::Ok(b(&ctx.decode(&e))));
    }
}

fn transport(h: &mut Harness) {
    let ctx = RistrettoCtx;
    let l_ = crate::p_curve::ell();
    let one = BigUint::from(1u32);
    let xs = vec![big(0), big(1), &l_ - 1u32, (&one << 128) - 1u32, &one << 128, (&one << 252) - 1u32, &one << 252];
    for (i, x) in xs.iter().enumerate() {
        let xv = ctx.exp_from_bytes(&le32(x)).unwrap();
        let sk = ctx.exp_from_u64(77 + i as u64);
        let key = PrivateKey::from(&sk, &ctx);
        let pke = key.pk_element().clone();
        let (r1, r2) = (h.rng.below(&l_), h.rng.below(&l_));
        load_tape(&[r1.clone(), r2.clone()]);
        let mut bytes = None;
        h.case(TOK, "enc_x", vec![Val::Nat(x.clone()), b(&eb(&pke)), l(vec![n(&r1), n(&r2)])], || match ctx.encrypt_exp(&xv, PublicKey::from_element(&pke, &ctx)) {
            Ok(bs) => {
                bytes = Some(bs.clone());
                Out::Ok(b(&bs))
            }
            Err(_) => Out::Err,
        });
        let Some(bs) = bytes else {
            h.check(false, || format!("encrypt_exp fails on R255 for {:x}", x));
            continue;
        };
        let dx = |bs: &[u8], sk: &X| match ctx.decrypt_exp(bs, PrivateKey::from(sk, &ctx)) {
            Ok(x) => Out::Ok(xn(&x)),
            Err(_) => Out::Err,
        };
        let o = h.case(TOK, "dec_x", vec![b(&bs), xn(&sk)], || dx(&bs, &sk));
        h.check(o == Out::Ok(Val::Nat(x.clone())), || format!("exponent transport round trip fails on R255 for {:x}", x));
        // wrong key: arbitrary halves, usually not a canonical scalar
        let sk2 = ctx.exp_from_u64(5);
        let o = h.case(TOK, "dec_x", vec![b(&bs), xn(&sk2)], || dx(&bs, &sk2));
        h.check(o != Out::Panic, || "decrypt_exp panics under a wrong key on R255".to_string());
        // malformed transports: wrong count, truncated, trailing, empty, arbitrary ciphertexts
        let mut b1 = bs.clone();
        b1[0] = 1;
        let c = Ciphertext::<C> { mhr: ctx.gmod_pow(&ctx.exp_from_u64(i as u64 + 3)), gr: ctx.gmod_pow(&ctx.exp_from_u64(9)) };
        let variants: Vec<(Vec<u8>, bool)> = vec![
            (b1, true),
            ([vec![1u8, 0, 0, 0], bs[4..68].to_vec()].concat(), true),
            ([vec![3u8, 0, 0, 0], bs[4..].to_vec(), bs[4..68].to_vec()].concat(), true),
            (bs[..bs.len() - 1].to_vec(), true),
            ([bs.clone(), vec![0]].concat(), true),
            (vec![], true),
            (vec![c.clone(), c].strand_serialize().unwrap(), false),
        ];
        for (v, must_err) in variants {
            let o = h.case(TOK, "dec_x", vec![b(&v), xn(&sk)], || dx(&v, &sk));
            h.check(o != Out::Panic && (!must_err || o == Out::Err), || format!("decrypt_exp accepts or panics on a malformed transport on R255: {:?}", o));
        }
    }
}

fn decoding(h: &mut Harness) {
    let ctx = RistrettoCtx;
    let quick = h.tier == Tier::Quick;
    let p = p25519();
    let l_ = crate::p_curve::ell();
    let one = BigUint::from(1u32);
    let mut cands: Vec<Vec<u8>> = vec![];
    for k in 0..(if quick { 12u32 } else { 40 }) {
        cands.push(le32(&big(k as u64)));
        cands.push(le32(&(&p - k)));
        cands.push(le32(&(&p + k)));
        cands.push(le32(&((&one << 255) + k)));
        cands.push(le32(&((&one << 254) + k)));
        cands.push(le32(&(&l_ - k)));
        cands.push(le32(&(&l_ + k)));
    }
    let sqrt_m1 = BigUint::parse_bytes(b"19681161376707505956807079304988542015446066515923890162744021073123829784752", 10).unwrap();
    cands.push(le32(&sqrt_m1));
    cands.push(le32(&(&p - &sqrt_m1)));
    for c in &cands {
        let o = h.case(TOK, "e_from_bytes", vec![b(c)], || match ctx.element_from_bytes(c) {
            Ok(e) => Out::Ok(b(&eb(&e))),
            Err(_) => Out::Err,
        });
        if o != Out::Err {
            h.check(o == Out::Ok(b(c)), || format!("accepted ristretto encoding {:02x?} is not canonical", c));
        }
        let o = h.case(TOK, "x_from_bytes", vec![b(c)], || match ctx.exp_from_bytes(c) {
            Ok(e) => Out::Ok(xn(&e)),
            Err(_) => Out::Err,
        });
        let v = BigUint::from_bytes_le(c);
        h.check((o != Out::Err) == (v < l_), || format!("exp_from_bytes acceptance of {:x} is not `< l`", v));
    }
}

pub fn run(h: &mut Harness) {
    let prop = h.prop.clone();
    h.comment("context R255 extra");
    let res = std::panic::catch_unwind(std::panic::AssertUnwindSafe(|| match prop.as_str() {
        "C15" => {
            hashing(h);
            arithmetic(h)
        }
        "C16" => hashing(h),
        "C17" => generators(h),
        "C18" => samplers(h),
        "C14" => plaintexts(h),
        "C01" => transport(h),
        "C11" => decoding(h),
        _ => {}
    }));
    vh::load_exp_tape(vec![]);
    vh::load_byte_tape(None);
    if res.is_err() {
        h.prop_evals += 1;
        h.prop_failures.push(format!("harness panicked while exploring {} on R255 (extra)", prop));
    }
}
