//! C16 (Fiat-Shamir transcripts) and C17 (derived generators).
use crate::core::*;
use crate::ctxs::NatCtx;
use crate::env::Env;
use crate::p_c05::opt_e;
use crate::p_shuffle::{self, vcts, vnats, PlainProof};
use crate::val::*;
use num_bigint::BigUint;
use strand::shuffler::verif as sv;
use strand::shuffler::Shuffler;
use strand::zkp::verif as zv;
use strand::zkp::Zkp;

pub fn run_c16<C: NatCtx>(v: &mut Env<C>) {
    let quick = v.h.tier == Tier::Quick;
    let (p, _q, g) = (v.p.clone(), v.q.clone(), v.g.clone());
    let ctx = v.ctx.clone();
    let zkp = Zkp::new(&ctx);
    let tok = v.tok.clone();
    let reps = if v.small { if quick { 10 } else { 60 } } else if quick { 3 } else { 20 };
    for i in 0..reps {
        let label = v.label(i);
        let (gb, y, t) = (v.rnd_member(), v.rnd_member(), v.rnd_member());
        let mhr = if i % 2 == 0 { None } else { Some(v.rnd_member()) };
        let (ge, ye, te) = (v.e(&gb), v.e(&y), v.e(&t));
        let mhre = mhr.as_ref().map(|m| v.e(m));
        // the exact bytes and the challenge
        let mut base_chal = None;
        v.case("sch_chal_bytes", vec![n(&gb), n(&y), n(&t), opt_e(&mhr), b(&label)], || match zv::schnorr_challenge_bytes::<C>(&ge, &ye, &te, mhre.as_ref(), &label) {
            Ok(bs) => Out::Ok(b(&bs)),
            Err(_) => Out::Err,
        });
        v.case("sch_chal", vec![n(&gb), n(&y), n(&t), opt_e(&mhr), b(&label)], || match zv::schnorr_challenge(&zkp, &ge, &ye, &te, mhre.as_ref(), &label) {
            Ok(x) => {
                base_chal = Some(C::x_val(&x));
                Out::Ok(Val::Nat(C::x_val(&x)))
            }
            Err(_) => Out::Err,
        });
        // determinism: evaluate again (hash-map iteration order differs between instances)
        for _ in 0..3 {
            let again = zv::schnorr_challenge(&zkp, &ge, &ye, &te, mhre.as_ref(), &label).ok().map(|x| C::x_val(&x));
            v.h.check(again == base_chal, || format!("Schnorr challenge not deterministic on {}", tok));
        }
        // every single-item perturbation changes the hashed bytes (and, on big groups, the challenge)
        let base_bytes = zv::schnorr_challenge_bytes::<C>(&ge, &ye, &te, mhre.as_ref(), &label).unwrap();
        // each item is replaced by item*g (a different member, since g != 1)
        let gp = v.e(&((&gb * &g) % &p));
        let yp = v.e(&((&y * &g) % &p));
        let tp = v.e(&((&t * &g) % &p));
        let mp = v.e(&((mhr.clone().unwrap_or_else(|| big(1)) * &g) % &p));
        let mut l2 = label.clone();
        l2.push(0);
        let perturbed = vec![
            zv::schnorr_challenge_bytes::<C>(&gp, &ye, &te, mhre.as_ref(), &label).unwrap(),
            zv::schnorr_challenge_bytes::<C>(&ge, &yp, &te, mhre.as_ref(), &label).unwrap(),
            zv::schnorr_challenge_bytes::<C>(&ge, &ye, &tp, mhre.as_ref(), &label).unwrap(),
            zv::schnorr_challenge_bytes::<C>(&ge, &ye, &te, mhre.as_ref(), &l2).unwrap(),
            zv::schnorr_challenge_bytes::<C>(&ge, &ye, &te, Some(&mp), &label).unwrap(),
        ];
        for (k, pb) in perturbed.iter().enumerate() {
            v.h.check(*pb != base_bytes, || format!("perturbing item {} of the Schnorr transcript leaves the hashed bytes unchanged on {}", k, tok));
            if !v.small {
                let h = C::x_val(&ctx.hash_to_exp(pb));
                v.h.check(Some(h) != base_chal, || format!("perturbing item {} of the Schnorr transcript leaves the challenge unchanged on {}", k, tok));
            }
        }
        // conformance: challenge = hash_to_exp(bytes), hash_to_exp = whole SHA-512 digest mod q
        let bb = base_bytes.clone();
        v.case("h2x", vec![b(&base_bytes)], || Out::Ok(Val::Nat(C::x_val(&ctx.hash_to_exp(&bb)))));
        v.h.check(Some(C::x_val(&ctx.hash_to_exp(&base_bytes))) == base_chal, || format!("Schnorr challenge is not hash_to_exp of the transcript bytes on {}", tok));
        let digest = strand::util::hash(&base_bytes);
        let bb = base_bytes.clone();
        v.case("sha512", vec![b(&base_bytes)], || Out::Ok(b(&strand::util::hash(&bb))));
        let as_int = if C::kind() == 'B' { BigUint::from_bytes_le(&digest) } else { BigUint::from_bytes_be(&digest) };
        v.h.check(Some(as_int % &v.q) == base_chal, || format!("challenge is not the full digest reduced mod q on {}", tok));
        // Chaum-Pedersen
        let (g2v, y2, t2) = (v.rnd_member(), v.rnd_member(), v.rnd_member());
        let (g2e, y2e, t2e) = (v.e(&g2v), v.e(&y2), v.e(&t2));
        v.case("cp_chal", vec![n(&gb), n(&g2v), n(&y), n(&y2), n(&t), n(&t2), opt_e(&mhr), b(&label)], || {
            match zv::cp_challenge(&zkp, &ge, &g2e, &ye, &y2e, &te, &t2e, mhre.as_ref(), &label) {
                Ok(x) => Out::Ok(Val::Nat(C::x_val(&x))),
                Err(_) => Out::Err,
            }
        });
    }
    // end to end: the challenge INSIDE a proof made by the library is the hash of the documented
    // transcript with the base actually used (default, explicit generator, custom base)
    for i in 0..(if v.small { 12 } else if quick { 3 } else { 12 }) {
        let label = v.label(i);
        let x = v.rnd_exp();
        let nonce = v.rnd_exp();
        let base: Option<BigUint> = match i % 3 { 0 => None, 1 => Some(g.clone()), _ => Some(v.rnd_member()) };
        crate::p_c05::schnorr_case(v, &x, &nonce, &base, &label, false);
        if i % 3 == 0 {
            // the optional ciphertext context is part of the statement: no label makes up for its absence
            crate::p_sigma::cross_protocol(v, &x, &label, !v.small);
        }
        let bv = base.clone().unwrap_or_else(|| g.clone());
        let (be, xe) = (v.e(&bv), v.x(&x));
        let y = ctx.emod_pow(&be, &xe);
        load_tape(&[nonce.clone()]);
        let pf = zkp.schnorr_prove(&xe, &y, base.as_ref().map(|b| v.e(b)).as_ref(), &label).unwrap();
        strand::verif_hooks::load_exp_tape(vec![]);
        let bytes = zv::schnorr_challenge_bytes::<C>(&be, &y, &pf.commitment, None, &label).unwrap();
        let expect = C::x_val(&ctx.hash_to_exp(&bytes));
        v.h.check(C::x_val(&pf.challenge) == expect, || format!("the challenge of a Schnorr proof over base {:?} is not the hash of its documented transcript on {}", base, tok));
        let g2 = v.rnd_member();
        crate::p_c05::cp_case(v, &x, &nonce, &base, &g2, &label, false);
        let m = v.rnd_member();
        let n2 = v.rnd_exp();
        crate::p_c05::bound_case(v, &x, &m, &nonce, &n2, &label);
    }
    // label lengths 0..=140 (quick: the padding-boundary neighbourhoods): every residue of the transcript length
    // modulo the SHA-512 block size; challenge = hash_to_exp(documented transcript bytes)
    if (v.small && v.p == big(23)) || v.p.bits() == 130 {
        let lens: Vec<usize> = if quick { vec![0, 1, 2, 3, 15, 16, 17, 30, 31, 32, 33, 47, 48, 63, 64, 65, 100, 127, 128, 129, 70000] } else { (0..=140).chain([65535, 65536, 70000, 1 << 20]).collect() };
        let (x, tt) = (v.rnd_exp(), v.rnd_member());
        let (ge, ye, te) = (v.e(&g), v.e(&g.modpow(&x, &p)), v.e(&tt));
        let y = g.modpow(&x, &p);
        for len in lens {
            let label = v.h.rng.bytes(len);
            let (g2, y2, t2, l2) = (ge.clone(), ye.clone(), te.clone(), label.clone());
            let zk = Zkp::new(&ctx);
            let out = v.case("sch_chal", vec![n(&g), n(&y), n(&tt), Val::None, b(&label)], || match zv::schnorr_challenge(&zk, &g2, &y2, &t2, None, &l2) {
                Ok(x) => Out::Ok(Val::Nat(C::x_val(&x))),
                Err(_) => Out::Err,
            });
            let bytes = zv::schnorr_challenge_bytes::<C>(&ge, &ye, &te, None, &label).unwrap();
            let want = C::x_val(&ctx.hash_to_exp(&bytes));
            v.h.check(out == Out::Ok(n(&want)), || format!("Schnorr challenge for a {}-byte label is not the hash of its transcript on {}", len, tok));
        }
    }
    // a label beyond 2^24 bytes (thorough: 2^26): the proof the library makes carries the hash of the documented
    // transcript, and the label is not interchangeable with its own digest
    if v.small && v.p == big(23) && C::kind() == 'B' {
        for len in if quick { vec![(1usize << 24) + 1] } else { vec![(1 << 24) + 1, (1 << 26) + 1] } {
            let label = vec![0x5au8; len];
            let x = v.rnd_exp();
            let (xe, ye) = (v.x(&x), v.e(&g.modpow(&x, &p)));
            strand::verif_hooks::load_exp_tape(vec![]);
            let zk = Zkp::new(&ctx);
            let pf = zk.schnorr_prove(&xe, &ye, None, &label).unwrap();
            let bytes = zv::schnorr_challenge_bytes::<C>(&v.e(&g), &ye, &pf.commitment, None, &label).unwrap();
            v.h.check(C::x_val(&pf.challenge) == C::x_val(&ctx.hash_to_exp(&bytes)), || format!("the challenge of a Schnorr proof with a {}-byte label is not the hash of its documented transcript on {}", len, tok));
            v.h.check(zk.schnorr_verify(&ye, None, &pf, &label), || format!("honest Schnorr proof with a {}-byte label rejected on {}", len, tok));
            let digest = strand::util::hash(&label);
            // (toy group: a chance collision of two challenges has probability 1/q; a digest-for-label substitution
            // makes the challenges EQUAL as byte strings, which is what is compared)
            let b2 = zv::schnorr_challenge_bytes::<C>(&v.e(&g), &ye, &pf.commitment, None, &digest).unwrap();
            v.h.check(b2 != bytes, || "label and digest give the same transcript".to_string());
            let gr = v.rnd_member();
            let key = strand::elgamal::PrivateKey::from(&xe, &ctx);
            let c = strand::elgamal::Ciphertext::<C> { mhr: v.e(&gr), gr: v.e(&gr) };
            let (_, cpf) = key.decrypt_and_prove(&c, &label).unwrap();
            let d = key.decryption_factor(&c);
            let cb = zv::cp_challenge(&zk, &v.e(&g), &c.gr, &ye, &d, &cpf.commitment1, &cpf.commitment2, Some(&c.mhr), &label).unwrap();
            v.h.check(C::x_val(&cpf.challenge) == C::x_val(&cb), || format!("the challenge of a decryption proof with a {}-byte label is not the documented one on {}", len, tok));
        }
    }
    // shuffle challenges
    let sizes: Vec<usize> = if v.small { if quick { vec![1, 3] } else { vec![1, 2, 5, 20] } } else if quick { vec![2] } else { vec![1, 4, 10] };
    let sk = v.rnd_exp();
    for nn in sizes {
        let s = p_shuffle::setup(v, &sk, nn, b"c16");
        let label = v.label(nn);
        let perm: Vec<usize> = (0..nn).rev().collect();
        let Some((es, eps, pp)) = p_shuffle::honest(v, &s, nn, &perm, &label, nn, 0, false) else { continue };
        let sh = Shuffler::new(&s.pk, &s.gens, &ctx);
        let cs_e: Vec<C::E> = pp.cs.iter().map(C::e_raw).collect();
        let ch_e: Vec<C::E> = pp.c_hats.iter().map(C::e_raw).collect();
        let mut us0 = None;
        v.case("us", vec![vcts(&es), vcts(&eps), vnats(&pp.cs), nu(nn as u64), b(&label)], || match sv::shuffle_us(&sh, &es, &eps, &cs_e, nn, &label) {
            Ok(us) => {
                let o = l(us.iter().map(|x| Val::Nat(C::x_val(x))).collect());
                us0 = Some(us.iter().map(C::x_val).collect::<Vec<BigUint>>());
                Out::Ok(o)
            }
            Err(_) => Out::Err,
        });
        let pf: strand::shuffler::ShuffleProof<C> = pp.to::<C>();
        let (tc, _, _, _, _, _) = sv::proof_parts(&pf);
        let tval = match pp.val() { Val::List(x) => x[0].clone(), _ => unreachable!() };
        let mut c0 = None;
        v.case("chal", vec![vcts(&es), vcts(&eps), vnats(&pp.cs), vnats(&pp.c_hats), n(&s.pkv), tval, b(&label)], || match sv::shuffle_challenge(&sh, &es, &eps, &cs_e, &ch_e, tc, &label) {
            Ok(x) => {
                c0 = Some(C::x_val(&x));
                Out::Ok(Val::Nat(C::x_val(&x)))
            }
            Err(_) => Out::Err,
        });
        // SCALE (implementation only): 70001 per-ciphertext challenges against the documented derivation
        // u_i = hash_to_exp(borsh{counter: i as 8 LE bytes, prefix: SHA-512(prefix transcript)}), recomputed here
        if nn == 1 && v.small && v.p == big(23) {
            let big_n = if quick { 70001usize } else { 300000 };
            let us: Vec<BigUint> = sv::shuffle_us(&sh, &es, &eps, &cs_e, big_n, &label).unwrap().iter().map(C::x_val).collect();
            // the prefix transcript: the model's stream compares its bytes; here only its digest is needed,
            // obtained from the library's own first challenges would be circular, so rebuild it:
            use strand::serialization::StrandSerialize;
            let enc_vec = |bs: &[u8]| { let mut o = (bs.len() as u32).to_le_bytes().to_vec(); o.extend(bs); o };
            let mut entries: Vec<(&str, Vec<u8>)> = vec![
                ("cs", strand::serialization::StrandVectorE::<C>(cs_e.clone()).strand_serialize().unwrap()),
                ("e_primes", strand::serialization::StrandVectorC::<C>(eps.clone()).strand_serialize().unwrap()),
                ("es", strand::serialization::StrandVectorC::<C>(es.clone()).strand_serialize().unwrap()),
                ("label", enc_vec(&label)),
            ];
            entries.sort_by(|a, b_| a.0.as_bytes().cmp(b_.0.as_bytes()));
            let mut pre = (entries.len() as u32).to_le_bytes().to_vec();
            for (k, val) in &entries {
                pre.extend(enc_vec(k.as_bytes()));
                pre.extend(enc_vec(val));
            }
            let ph = strand::util::hash(&pre);
            let bad = (0..big_n).find(|&i| {
                let mut m = 2u32.to_le_bytes().to_vec();
                m.extend(enc_vec(b"counter"));
                m.extend(enc_vec(&(i as u64).to_le_bytes()));
                m.extend(enc_vec(b"prefix"));
                m.extend(enc_vec(&ph));
                us[i] != C::x_val(&ctx.hash_to_exp(&m))
            });
            v.h.check(us.len() == big_n && bad.is_none(), || format!("shuffle_proof_us({}) : {} challenges, the first that differs from the documented derivation is at position {:?} on {}", big_n, us.len(), bad, tok));
        }
        // position counters far beyond the list length: n is a free parameter of shuffle_proof_us
        if nn <= 3 && (v.small && v.p == big(23) || !v.small && v.p.bits() < 100) {
            for big_n in [1025usize, 2050] {
                v.case("us", vec![vcts(&es), vcts(&eps), vnats(&pp.cs), nu(big_n as u64), b(&label)], || match sv::shuffle_us(&sh, &es, &eps, &cs_e, big_n, &label) {
                    Ok(us) => Out::Ok(l(us.iter().map(|x| Val::Nat(C::x_val(x))).collect())),
                    Err(_) => Out::Err,
                });
            }
            if !v.small {
                let us: Vec<BigUint> = sv::shuffle_us(&sh, &es, &eps, &cs_e, 2050, &label).unwrap().iter().map(C::x_val).collect();
                let mut d = us.clone();
                d.sort();
                d.dedup();
                v.h.check(d.len() == us.len(), || format!("the 2050 per-ciphertext challenges are not pairwise distinct on {}", tok));
            }
        }
        if !v.small {
            if let Some(us) = &us0 {
                let mut u2 = us.clone();
                u2.sort();
                u2.dedup();
                v.h.check(u2.len() == us.len(), || format!("per-ciphertext challenges are not pairwise distinct on {} N={}", tok, nn));
            }
            // perturb one input ciphertext / label: every u_i and c change
            let mut es2 = es.clone();
            es2[0] = strand::elgamal::Ciphertext { mhr: es2[0].gr.clone(), gr: es2[0].mhr.clone() };
            if es2[0] != es[0] {
                let us2: Vec<BigUint> = sv::shuffle_us(&sh, &es2, &eps, &cs_e, nn, &label).unwrap().iter().map(C::x_val).collect();
                v.h.check(us0.as_ref().map(|u| u.iter().zip(us2.iter()).all(|(a, b)| a != b)).unwrap_or(false), || format!("changing an input ciphertext leaves a per-ciphertext challenge unchanged on {}", tok));
                let c2 = C::x_val(&sv::shuffle_challenge(&sh, &es2, &eps, &cs_e, &ch_e, tc, &label).unwrap());
                v.h.check(Some(c2) != c0, || format!("changing an input ciphertext leaves the final challenge unchanged on {}", tok));
            }
            let mut l2 = label.clone();
            l2.push(3);
            let c2 = C::x_val(&sv::shuffle_challenge(&sh, &es, &eps, &cs_e, &ch_e, tc, &l2).unwrap());
            v.h.check(Some(c2) != c0, || format!("changing the label leaves the final challenge unchanged on {}", tok));
            // every argument, every position: an input, an OUTPUT, a permutation commitment, the label must
            // change every per-ciphertext challenge; those, a chain commitment and the key the final one
            use strand::context::Element;
            let ge = v.e(&g);
            let bump_ct = |c: &strand::elgamal::Ciphertext<C>, which: usize| if which == 0 {
                strand::elgamal::Ciphertext::<C> { mhr: c.mhr.mul(&ge).modp(&ctx), gr: c.gr.clone() }
            } else {
                strand::elgamal::Ciphertext::<C> { mhr: c.mhr.clone(), gr: c.gr.mul(&ge).modp(&ctx) }
            };
            let us_of = |es: &[strand::elgamal::Ciphertext<C>], eps: &[strand::elgamal::Ciphertext<C>], cs: &[C::E], lab: &[u8]| -> Vec<BigUint> { sv::shuffle_us(&sh, es, eps, cs, nn, lab).unwrap().iter().map(C::x_val).collect() };
            let c_of = |es: &[strand::elgamal::Ciphertext<C>], eps: &[strand::elgamal::Ciphertext<C>], cs: &[C::E], ch: &[C::E], lab: &[u8]| C::x_val(&sv::shuffle_challenge(&sh, es, eps, cs, ch, tc, lab).unwrap());
            let us_base = us_of(&es, &eps, &cs_e, &label);
            let c_base = c_of(&es, &eps, &cs_e, &ch_e, &label);
            let all_differ = |a: &[BigUint], b: &[BigUint]| a.len() == b.len() && a.iter().zip(b.iter()).all(|(x, y)| x != y);
            for k in 0..nn {
                for which in 0..2 {
                    let mut x = es.clone();
                    x[k] = bump_ct(&es[k], which);
                    v.h.check(all_differ(&us_base, &us_of(&x, &eps, &cs_e, &label)), || format!("the per-ciphertext challenges do not depend on component {} of input ciphertext {} on {} N={}", which, k, tok, nn));
                    v.h.check(c_base != c_of(&x, &eps, &cs_e, &ch_e, &label), || format!("the final challenge does not depend on component {} of input ciphertext {} on {} N={}", which, k, tok, nn));
                    let mut x = eps.clone();
                    x[k] = bump_ct(&eps[k], which);
                    v.h.check(all_differ(&us_base, &us_of(&es, &x, &cs_e, &label)), || format!("the per-ciphertext challenges do not depend on component {} of OUTPUT ciphertext {} on {} N={}", which, k, tok, nn));
                    v.h.check(c_base != c_of(&es, &x, &cs_e, &ch_e, &label), || format!("the final challenge does not depend on component {} of output ciphertext {} on {} N={}", which, k, tok, nn));
                }
                let mut x = cs_e.clone();
                x[k] = cs_e[k].mul(&ge).modp(&ctx);
                v.h.check(all_differ(&us_base, &us_of(&es, &eps, &x, &label)), || format!("the per-ciphertext challenges do not depend on permutation commitment {} on {} N={}", k, tok, nn));
                v.h.check(c_base != c_of(&es, &eps, &x, &ch_e, &label), || format!("the final challenge does not depend on permutation commitment {} on {} N={}", k, tok, nn));
                let mut x = ch_e.clone();
                x[k] = ch_e[k].mul(&ge).modp(&ctx);
                v.h.check(c_base != c_of(&es, &eps, &cs_e, &x, &label), || format!("the final challenge does not depend on chain commitment {} on {} N={}", k, tok, nn));
            }
            v.h.check(all_differ(&us_base, &us_of(&es, &eps, &cs_e, &l2)), || format!("the per-ciphertext challenges do not depend on the label on {} N={}", tok, nn));
            {
                // another public key
                let pk2 = strand::elgamal::PublicKey::<C>::from_element(&strand::verif_hooks::pk_element(&s.pk).mul(&ge).modp(&ctx), &ctx);
                let sh2 = Shuffler::new(&pk2, &s.gens, &ctx);
                let c2 = C::x_val(&sv::shuffle_challenge(&sh2, &es, &eps, &cs_e, &ch_e, tc, &label).unwrap());
                v.h.check(c2 != c_base, || format!("the final challenge does not depend on the public key on {} N={}", tok, nn));
            }
        }
        let _ = PlainProof::from(&pf);
    }
}

/// FIPS 186-4 A.2.3 style derivation of the generator with 1-based `index`, independent of the library's
/// back-end code (only its SHA-512 instance is shared)
fn ref_generator(seed: &[u8], index: u64, little_endian: bool, p: &BigUint, q: &BigUint) -> BigUint {
    use sha2_via_strand::*;
    let cofactor = (p - 1u32) / q;
    let mut next = seed.to_vec();
    next.extend(b"ggen");
    let mut count: u64 = 0;
    loop {
        count += 1;
        next.extend(index.to_le_bytes());
        next.extend(count.to_le_bytes());
        let digest = sha512(&next);
        let e = if little_endian { BigUint::from_bytes_le(&digest) } else { BigUint::from_bytes_be(&digest) } % p;
        let gg = e.modpow(&cofactor, p);
        if gg >= big(2) || count > 300 {
            return gg;
        }
    }
}
mod sha2_via_strand {
    pub fn sha512(bytes: &[u8]) -> Vec<u8> {
        strand::util::hash(bytes)
    }
}

pub fn run_c17<C: NatCtx>(v: &mut Env<C>) {
    let quick = v.h.tier == Tier::Quick;
    let (p, q, g) = (v.p.clone(), v.q.clone(), v.g.clone());
    let ctx = v.ctx.clone();
    let tok = v.tok.clone();
    let seeds: Vec<Vec<u8>> = vec![vec![], b"a".to_vec(), v.h.rng.bytes(1024)];
    let sizes: Vec<usize> = if v.small { if quick { if v.p == big(23) { vec![0, 1, 2, 13, 50, 1030] } else { vec![0, 1, 2, 13, 50] } } else { vec![0, 1, 2, 50, 400, 2100] } } else if quick { vec![0, 1, 3, 12] } else { vec![0, 1, 5, 50, 300] };
    for seed in &seeds {
        let mut longest: Vec<BigUint> = vec![];
        for &size in &sizes {
            let mut got = None;
            v.case("gens", vec![nu(size as u64), b(seed)], || {
                let gs = ctx.generators(size, seed);
                let o = l(gs.iter().map(|e| Val::Nat(C::e_val(e))).collect());
                got = Some(gs.iter().map(C::e_val).collect::<Vec<BigUint>>());
                Out::Ok(o)
            });
            let Some(gs) = got else {
                v.h.check(false, || format!("generators({}) panicked on {}", size, tok));
                continue;
            };
            v.h.check(gs.len() == size, || format!("generators({}) returned {} elements on {}", size, gs.len(), tok));
            // deterministic
            let again: Vec<BigUint> = ctx.generators(size, seed).iter().map(C::e_val).collect();
            v.h.check(again == gs, || format!("generators not deterministic on {}", tok));
            // prefix-stable
            let k = longest.len().min(gs.len());
            v.h.check(longest[..k] == gs[..k], || format!("generators not prefix-stable on {} ({} vs {})", tok, longest.len(), gs.len()));
            for x in &gs {
                let member = *x >= big(2) && *x < p && x.modpow(&q, &p) == big(1);
                v.h.check(member, || format!("derived generator {:x} is not a non-identity member on {}", x, tok));
            }
            if !v.small {
                let mut d = gs.clone();
                d.sort();
                d.dedup();
                v.h.check(d.len() == gs.len(), || format!("derived generators are not pairwise distinct on {}", tok));
                v.h.check(!gs.contains(&g), || format!("a derived generator equals the standard generator on {}", tok));
            }
            // the documented derivation recomputed for EVERY generator (SHA-512 through util::hasher, integer
            // arithmetic in the harness): seed || "ggen" || (index_le8 || count_le8)+ -> integer mod p -> ^cofactor
            if gs.len() > longest.len() {
                for (i, x) in gs.iter().enumerate().skip(longest.len()) {
                    let want = ref_generator(seed, i as u64 + 1, C::kind() == 'B', &p, &q);
                    v.h.check(*x == want, || format!("generator {} of generators({}, seed {:02x?}) is {:x}, the documented derivation gives {:x} on {}", i + 1, size, &seed[..seed.len().min(8)], x, want, tok));
                }
                longest = gs;
            }
        }
    }
    // seed lengths across the SHA-512 padding boundaries (seed || "ggen" || 16 bytes per attempt)
    if (v.small && v.p == big(23)) || v.p.bits() == 130 {
        let lens: Vec<usize> = if quick { vec![2, 3, 43, 44, 90, 91, 92, 107, 108, 109, 219, 220, 221, 70000] } else { (0..=240).chain([65535, 65536, 70000, 1 << 20]).collect() };
        for len in lens {
            let seed = v.h.rng.bytes(len);
            let (c2, sd) = (ctx.clone(), seed.clone());
            let out = v.case("gens", vec![nu(3), b(&seed)], || Out::Ok(l(c2.generators(3, &sd).iter().map(|e| Val::Nat(C::e_val(e))).collect())));
            let want: Vec<Val> = (1..=3u64).map(|i| n(&ref_generator(&seed, i, C::kind() == 'B', &p, &q))).collect();
            v.h.check(out == Out::Ok(l(want)), || format!("generators(3) for a {}-byte seed differ from the documented derivation on {}", len, tok));
        }
    }
    // SCALE (implementation only): long generator lists against the reference derivation, prefix stability
    if v.small && v.p == big(23) {
        for size in if quick { vec![4097usize, 70001] } else { vec![4097, 16385, 65537, 70001, 140000] } {
            let seed = v.h.rng.bytes(9);
            let gs: Vec<BigUint> = ctx.generators(size, &seed).iter().map(C::e_val).collect();
            let bad = (0..gs.len()).find(|&i| gs[i] != ref_generator(&seed, i as u64 + 1, C::kind() == 'B', &p, &q));
            v.h.check(gs.len() == size && bad.is_none(), || format!("generators({}) returned {} elements, the first that differs from the documented derivation is number {:?} on {}", size, gs.len(), bad.map(|i| i + 1), tok));
            let short: Vec<BigUint> = ctx.generators(16, &seed).iter().map(C::e_val).collect();
            v.h.check(gs.len() >= 16 && short[..] == gs[..16], || format!("generators({}) is not an extension of generators(16) on {}", size, tok));
        }
    }
    // different seeds give different lists (large groups)
    if !v.small {
        let a: Vec<BigUint> = ctx.generators(3, b"seed-a").iter().map(C::e_val).collect();
        let b2: Vec<BigUint> = ctx.generators(3, b"seed-b").iter().map(C::e_val).collect();
        v.h.check(a != b2 && a[0] != b2[0], || format!("different seeds give equal generators on {}", tok));
    }
    // the documented derivation, recomputed independently for the first generator
    let mut next = seeds[1].clone();
    next.extend(b"ggen");
    let mut count: u64 = 0;
    let first = loop {
        count += 1;
        next.extend(1u64.to_le_bytes());
        next.extend(count.to_le_bytes());
        let nn = next.clone();
        let mut e = None;
        v.case("h2e", vec![b(&next)], || {
            let x = ctx.hash_to_element(&nn);
            e = Some(x.clone());
            Out::Ok(Val::Nat(x))
        });
        let gg = e.unwrap().modpow(&big(2), &p);
        if gg >= big(2) || count > 200 {
            break gg;
        }
    };
    let lib: Vec<BigUint> = ctx.generators(1, &seeds[1]).iter().map(C::e_val).collect();
    v.h.check(lib[0] == first, || format!("first generator differs from the documented derivation on {}", tok));
}
