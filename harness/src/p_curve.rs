//! Streams for the Ristretto back-end (ctx token R255); protocol: lean/PROTOCOL_R255.md.
use crate::core::*;
use crate::val::*;
use num_bigint::BigUint;
use num_traits::Num;
use strand::backend::ristretto::{RistrettoCtx, RistrettoPointS, ScalarS};
use strand::context::{Ctx, Element, Exponent};
use strand::elgamal::{Ciphertext, PrivateKey, PublicKey};
use strand::serialization::*;
use strand::shuffler::verif as sv;
use strand::shuffler::{Commitments, ShuffleProof, Shuffler};
use strand::threshold;
use strand::verif_hooks as vh;
use strand::verif_hooks::KeymakerV;
use strand::zkp::verif as zv;
use strand::zkp::{ChaumPedersen, Schnorr, Zkp};

type C = RistrettoCtx;
type E = RistrettoPointS;
type X = ScalarS;
const TOK: &str = "R255";

pub fn ell() -> BigUint {
    BigUint::from_str_radix("7237005577332262213973186563042994240857116359379907606001950938285454250989", 10).unwrap()
}
fn eb(e: &E) -> Vec<u8> {
    e.strand_serialize().unwrap()
}
fn ve(e: &E) -> Val {
    Val::Bytes(eb(e))
}
fn xn(x: &X) -> BigUint {
    BigUint::from_bytes_le(&x.strand_serialize().unwrap())
}
fn vx(x: &X) -> Val {
    Val::Nat(xn(x))
}
fn x_of(n: &BigUint) -> X {
    let mut le = n.to_bytes_le();
    le.resize(32, 0);
    C::default().exp_from_bytes(&le).expect("scalar not canonical")
}
fn vct(c: &Ciphertext<C>) -> Val {
    l(vec![ve(&c.mhr), ve(&c.gr)])
}
fn vcts(cs: &[Ciphertext<C>]) -> Val {
    l(cs.iter().map(vct).collect())
}
fn ves(es: &[E]) -> Val {
    l(es.iter().map(ve).collect())
}
fn vxs(xs: &[X]) -> Val {
    l(xs.iter().map(vx).collect())
}
fn vsch(p: &Schnorr<C>) -> Val {
    l(vec![ve(&p.commitment), vx(&p.challenge), vx(&p.response)])
}
fn vcp(p: &ChaumPedersen<C>) -> Val {
    l(vec![ve(&p.commitment1), ve(&p.commitment2), vx(&p.challenge), vx(&p.response)])
}
fn opt(g: &Option<E>) -> Val {
    match g {
        Some(e) => ve(e),
        None => Val::None,
    }
}
fn vproof(p: &ShuffleProof<C>) -> Val {
    let (t, s, sh, sp, cs, ch) = sv::proof_parts(p);
    l(vec![
        l(vec![ve(&t.t1), ve(&t.t2), ve(&t.t3), ve(&t.t4_1), ve(&t.t4_2), ves(&t.t_hats.0)]),
        l(vec![vx(s[0]), vx(s[1]), vx(s[2]), vx(s[3]), vxs(sh), vxs(sp)]),
        ves(cs),
        ves(ch),
    ])
}
fn tape(xs: &[BigUint]) {
    load_tape(xs);
}

struct R<'a> {
    h: &'a mut Harness,
    ctx: C,
    l: BigUint,
}
impl<'a> R<'a> {
    fn case(&mut self, op: &str, args: Vec<Val>, f: impl FnOnce() -> Out) -> Out {
        self.h.case(TOK, op, args, f)
    }
    fn rx(&mut self) -> BigUint {
        let l = self.l.clone();
        self.h.rng.below(&l)
    }
    fn rxs(&mut self, n: usize) -> Vec<BigUint> {
        (0..n).map(|_| self.rx()).collect()
    }
    fn exps(&mut self, n: usize) -> Vec<BigUint> {
        let mut v = vec![big(0), big(1), &self.l - 1u32, big(2)];
        for _ in 0..n {
            let x = self.rx();
            v.push(x);
        }
        v
    }
    fn re(&mut self) -> E {
        let x = self.rx();
        self.ctx.gmod_pow(&x_of(&x))
    }
    fn members(&mut self, n: usize) -> Vec<E> {
        let mut v = vec![E::mul_identity(), self.ctx.generator().clone()];
        for _ in 0..n {
            let e = self.re();
            v.push(e);
        }
        v
    }
    fn label(&mut self, i: usize) -> Vec<u8> {
        match i % 4 {
            0 => vec![],
            1 => vec![0x61],
            2 => self.h.rng.bytes(7),
            _ => self.h.rng.bytes(300),
        }
    }
    fn pt(&mut self, i: usize) -> [u8; 30] {
        let mut p = [0u8; 30];
        match i % 5 {
            0 => {}
            1 => p = [0xff; 30],
            2 => p[(i / 5) % 30] = 1 << (i % 8),
            _ => p.copy_from_slice(&self.h.rng.bytes(30)),
        }
        p
    }
}

fn c15(r: &mut R) {
    let ctx = r.ctx.clone();
    r.case("gen", vec![], || Out::Ok(ve(ctx.generator())));
    let n = if r.h.tier == Tier::Quick { 6 } else { 60 };
    let mem = r.members(n);
    let xs = r.exps(n);
    for (i, a) in mem.iter().enumerate() {
        let b = &mem[(i * 7 + 3) % mem.len()];
        let c = &mem[(i * 3 + 1) % mem.len()];
        let x = x_of(&xs[(i * 5 + 1) % xs.len()]);
        let y = x_of(&xs[(i * 11 + 2) % xs.len()]);
        r.case("mul", vec![ve(a), ve(b)], || Out::Ok(ve(&a.mul(b))));
        r.case("div", vec![ve(a), ve(b)], || Out::Ok(ve(&a.divp(b, &ctx))));
        r.case("inv", vec![ve(a)], || Out::Ok(ve(&a.invp(&ctx))));
        r.case("modp", vec![ve(a)], || Out::Ok(ve(&a.modp(&ctx))));
        r.case("epow", vec![ve(a), vx(&x)], || Out::Ok(ve(&ctx.emod_pow(a, &x))));
        r.case("gpow", vec![vx(&x)], || Out::Ok(ve(&ctx.gmod_pow(&x))));
        // the trait methods taking an explicit (ignored) modulus, and the Ctx-level reductions
        r.case("div", vec![ve(a), ve(b)], || Out::Ok(ve(&a.div(b, c))));
        r.case("inv", vec![ve(a)], || Out::Ok(ve(&a.inv(c))));
        r.case("modp", vec![ve(a)], || Out::Ok(ve(&a.modulo(c))));
        r.case("modp", vec![ve(a)], || Out::Ok(ve(&ctx.modulo(a))));
        r.case("epow", vec![ve(a), vx(&x)], || Out::Ok(ve(&a.mod_pow(&x, c))));
        r.case("xdiv", vec![vx(&x), vx(&y)], || Out::Ok(vx(&x.div(&y, &x))));
        r.case("xinv", vec![vx(&x)], || Out::Ok(vx(&x.inv(&y))));
        r.case("xmod", vec![vx(&x)], || Out::Ok(vx(&x.modulo(&y))));
        r.case("xmod", vec![vx(&x)], || Out::Ok(vx(&ctx.exp_modulo(&x))));
        r.case("xadd", vec![vx(&x), vx(&y)], || Out::Ok(vx(&x.add(&y))));
        r.case("xsub", vec![vx(&x), vx(&y)], || Out::Ok(vx(&x.sub(&y))));
        r.case("xmul", vec![vx(&x), vx(&y)], || Out::Ok(vx(&x.mul(&y))));
        r.case("xdiv", vec![vx(&x), vx(&y)], || Out::Ok(vx(&x.divq(&y, &ctx))));
        r.case("xinv", vec![vx(&x)], || Out::Ok(vx(&x.invq(&ctx))));
        r.case("xmod", vec![vx(&x)], || Out::Ok(vx(&x.modq(&ctx))));
        r.case("submod", vec![vx(&x), vx(&y)], || Out::Ok(vx(&x.sub_mod(&y, &ctx))));
        // laws on the implementation
        let one = E::mul_identity();
        let lx = x_of(&(&r.l - 1u32));
        let laws = vec![
            ("assoc", a.mul(b).mul(c) == a.mul(&b.mul(c))),
            ("comm", a.mul(b) == b.mul(a)),
            ("ident", a.mul(&one) == *a),
            ("inv", a.mul(&a.invp(&ctx)) == one),
            ("div", a.divp(b, &ctx).mul(b) == *a),
            ("pow_add", ctx.emod_pow(a, &x.add(&y)) == ctx.emod_pow(a, &x).mul(&ctx.emod_pow(a, &y))),
            ("pow_mul", ctx.emod_pow(&ctx.emod_pow(a, &x), &y) == ctx.emod_pow(a, &x.mul(&y))),
            ("order", ctx.emod_pow(a, &lx).mul(a) == one),
            ("gpow", ctx.gmod_pow(&x) == ctx.emod_pow(ctx.generator(), &x)),
            ("sub_mod", x.sub_mod(&y, &ctx).add(&y) == x),
            ("xinv", xn(&x) == big(0) || x.mul(&x.invq(&ctx)) == X::mul_identity()),
            ("canonical", eb(&a.mul(b)) == eb(&b.mul(a))),
        ];
        for (name, ok) in laws {
            r.h.check(ok, || format!("law {} fails on R255", name));
        }
    }
    r.h.check(*ctx.generator() != E::mul_identity(), || "generator is the identity on R255".to_string());
    for u in [0u64, 1, 255, 256, u64::MAX] {
        r.case("xfromu64", vec![nu(u)], || Out::Ok(vx(&ctx.exp_from_u64(u))));
    }
    for i in 0..4 {
        let bs = r.h.rng.bytes(i * 37);
        let b2 = bs.clone();
        r.case("h2x", vec![b(&bs)], || Out::Ok(vx(&ctx.hash_to_exp(&b2))));
    }
}

/// a CRAFTED transport blob: a sender encrypts the two 16-byte halves of a 32-byte string that is NOT a canonical
/// scalar (l, l+1, 2l, 2^255, 2^256-1): decrypt_exp must refuse it (only canonical exponents are ever accepted),
/// never reduce it silently; canonical values (l-1, 0) round-trip
fn crafted_transport(r: &mut R, sk: &X) {
    let ctx = r.ctx.clone();
    let sk = sk.clone();

            let key2 = PrivateKey::from(&sk, &ctx);
            let pk3 = key2.get_pk();
            let ell = r.l.clone();
            let crafted: Vec<BigUint> = vec![ell.clone(), &ell + 1u32, &ell * 2u32, BigUint::from(1u32) << 255, (BigUint::from(1u32) << 256) - 1u32, &ell - 1u32, BigUint::from(0u32)];
            for val in crafted {
                let mut le = val.to_bytes_le();
                le.resize(32, 0);
                let mut cts = vec![];
                for half in le.chunks(16) {
                    let mut pt = [0u8; 30];
                    pt[..16].copy_from_slice(half);
                    cts.push(pk3.encrypt(&ctx.encode(&pt).unwrap()));
                }
                let blob = cts.strand_serialize().unwrap();
                let (b2, key3) = (blob.clone(), PrivateKey::from(&sk, &ctx));
                let out = r.case("dec_x", vec![b(&blob), vx(&sk)], || match ctx.decrypt_exp(&b2, key3) {
                    Ok(x) => Out::Ok(vx(&x)),
                    Err(_) => Out::Err,
                });
                let want = if val < ell { Out::Ok(n(&val)) } else { Out::Err };
                r.h.check(out == want, || format!("decrypt_exp of a crafted transport blob whose halves denote {:x} returns {:?} (the group order is {:x}) on R255", val, out, ell));
            }
        }

fn c01(r: &mut R) {
    let ctx = r.ctx.clone();
    let zkp = Zkp::new(&ctx);
    let cnt = if r.h.tier == Tier::Quick { 6 } else { 50 };
    let sks = r.exps(cnt);
    let rs = r.exps(cnt);
    for i in 0..(cnt + 4) {
        let sk = x_of(&sks[(i * 3 + 1) % sks.len()]);
        let rr = x_of(&rs[(i * 5 + 2) % rs.len()]);
        let data = r.pt(i);
        let key = PrivateKey::from(&sk, &ctx);
        let pk = key.get_pk();
        let pke = key.pk_element().clone();
        r.case("keygen", vec![vx(&sk)], || Out::Ok(ve(&pke)));
        let mut enc = None;
        r.case("encode", vec![b(&data)], || match ctx.encode(&data) {
            Ok(e) => {
                let o = ve(&e);
                enc = Some(e);
                Out::Ok(o)
            }
            Err(_) => Out::Err,
        });
        let Some(m) = enc else {
            r.h.check(false, || format!("encode refused the 30-byte plaintext {:?} on R255", data));
            continue;
        };
        let c1 = pk.encrypt_with_randomness(&m, &rr);
        let c2 = pk.encrypt_with_randomness(&m, &rr);
        r.h.check(c1 == c2, || "encrypt_with_randomness not deterministic on R255".to_string());
        r.case("enc", vec![ve(&pke), ve(&m), vx(&rr)], || Out::Ok(vct(&c1)));
        let d = key.decrypt(&c1);
        r.case("dec", vec![vx(&sk), vct(&c1)], || Out::Ok(ve(&d)));
        r.case("decode", vec![ve(&d)], || Out::Ok(b(&ctx.decode(&d))));
        r.h.check(ctx.decode(&d) == data, || format!("round trip fails on R255 for plaintext {:?}", data));
        // wire
        let cb = c1.strand_serialize().unwrap();
        let cb2 = cb.clone();
        r.case("ser_ct", vec![vct(&c1)], || Out::Ok(b(&cb2)));
        let back = Ciphertext::<C>::strand_deserialize(&cb);
        let skb = key.strand_serialize().unwrap();
        let kb = PrivateKey::<C>::strand_deserialize(&skb);
        match (back, kb) {
            (Ok(c), Ok(k)) => r.h.check(ctx.decode(&k.decrypt(&c)) == data, || "wire round trip fails on R255".to_string()),
            _ => r.h.check(false, || "wire decode fails on R255".to_string()),
        }
        let skb2 = skb.clone();
        r.case("des_sk", vec![b(&skb)], || match PrivateKey::<C>::strand_deserialize(&skb2) {
            Ok(k) => Out::Ok(l(vec![vx(vh::sk_value(&k)), ve(k.pk_element())])),
            Err(_) => Out::Err,
        });
        // exponential
        tape(&[xn(&rr)]);
        let ce = pk.encrypt_exponential(&sk);
        vh::load_exp_tape(vec![]);
        r.h.check(key.decrypt(&ce) == ctx.gmod_pow(&sk), || "exponential round trip fails on R255".to_string());
        // enc_pok
        let label = r.label(i);
        let nonce = r.rx();
        tape(&[xn(&rr), nonce.clone()]);
        let mut got = None;
        r.case("enc_pok", vec![ve(&pke), ve(&m), b(&label), l(vec![vx(&rr), n(&nonce)])], || match pk.encrypt_and_pok(&m, &label) {
            Ok((c, pf, x)) => {
                let o = l(vec![vct(&c), vsch(&pf), vx(&x)]);
                got = Some((c, pf));
                Out::Ok(o)
            }
            Err(_) => Out::Err,
        });
        if let Some((c, pf)) = got {
            let ok = zkp.encryption_popk_verify(&c.mhr, &c.gr, &pf, &label).unwrap_or(false) && ctx.decode(&key.decrypt(&c)) == data;
            r.h.check(ok, || "encrypt_and_pok fails on R255".to_string());
        }
        let nonce = r.rx();
        tape(&[nonce.clone()]);
        r.case("dec_prove", vec![vx(&sk), ve(&pke), vct(&c1), b(&label), l(vec![n(&nonce)])], || match key.decrypt_and_prove(&c1, &label) {
            Ok((d, pf)) => Out::Ok(l(vec![ve(&d), vcp(&pf)])),
            Err(_) => Out::Err,
        });
        // exponent transport: two draws
        let (r1, r2) = (r.rx(), r.rx());
        tape(&[r1.clone(), r2.clone()]);
        let mut bytes = None;
        let pk2 = PublicKey::from_element(&pke, &ctx);
        r.case("enc_x", vec![vx(&sk), ve(&pke), l(vec![n(&r1), n(&r2)])], || match ctx.encrypt_exp(&sk, pk2) {
            Ok(bs) => {
                bytes = Some(bs.clone());
                Out::Ok(b(&bs))
            }
            Err(_) => Out::Err,
        });
        if let Some(bs) = bytes {
            let key2 = PrivateKey::from(&sk, &ctx);
            let b2 = bs.clone();
            let out = r.case("dec_x", vec![b(&bs), vx(&sk)], || match ctx.decrypt_exp(&b2, key2) {
                Ok(x) => Out::Ok(vx(&x)),
                Err(_) => Out::Err,
            });
            r.h.check(out == Out::Ok(vx(&sk)), || "exponent transport round trip fails on R255".to_string());
        }
        if i < 2 {
            crafted_transport(r, &sk);
        }
        // homomorphism
        let m2 = r.re();
        let c3 = pk.encrypt_with_randomness(&m2, &sk);
        let prod = Ciphertext::<C> { mhr: c1.mhr.mul(&c3.mhr), gr: c1.gr.mul(&c3.gr) };
        r.h.check(key.decrypt(&prod) == m.mul(&m2), || "homomorphism fails on R255".to_string());
    }
}

fn sigma(r: &mut R, adversarial: bool) {
    let ctx = r.ctx.clone();
    let zkp = Zkp::new(&ctx);
    let cnt = if r.h.tier == Tier::Quick { 5 } else { 40 };
    let xs = r.exps(cnt);
    let ns = r.exps(cnt);
    let gen = ctx.generator().clone();
    for i in 0..xs.len() {
        for j in 0..ns.len() {
            if !(i < 3 || j < 3 || i == j) {
                continue;
            }
            let (x, nonce) = (x_of(&xs[i]), ns[j].clone());
            let label = r.label(i + j);
            let base: Option<E> = match (i + j) % 3 {
                0 => None,
                1 => Some(gen.clone()),
                _ => Some(r.re()),
            };
            let bv = base.clone().unwrap_or_else(|| gen.clone());
            let y = ctx.emod_pow(&bv, &x);
            tape(&[nonce.clone()]);
            let mut proof = None;
            r.case("sch_prove", vec![vx(&x), ve(&y), opt(&base), b(&label), n(&nonce)], || match zkp.schnorr_prove(&x, &y, base.as_ref(), &label) {
                Ok(pf) => {
                    let o = vsch(&pf);
                    proof = Some(pf);
                    Out::Ok(o)
                }
                Err(_) => Out::Err,
            });
            let Some(pf) = proof else { continue };
            let mut ok = false;
            r.case("sch_verify", vec![ve(&y), opt(&base), vsch(&pf), b(&label)], || {
                ok = zkp.schnorr_verify(&y, base.as_ref(), &pf, &label);
                Out::Ok(Val::Bool(ok))
            });
            r.h.check(ok, || format!("honest Schnorr proof rejected on R255 x={:x} nonce={:x}", xs[i], nonce));
            if base.is_none() {
                r.h.check(zkp.schnorr_verify(&y, Some(&gen), &pf, &label), || "Schnorr base interchange fails on R255".to_string());
            }
            let back = Schnorr::<C>::strand_deserialize(&pf.strand_serialize().unwrap());
            r.h.check(matches!(&back, Ok(p) if zkp.schnorr_verify(&y, base.as_ref(), p, &label)), || "Schnorr proof rejected after wire round trip on R255".to_string());
            // Chaum-Pedersen
            let g2 = if j % 4 == 0 { E::mul_identity() } else { r.re() };
            let y2 = ctx.emod_pow(&g2, &x);
            tape(&[nonce.clone()]);
            let mut cproof = None;
            r.case("cp_prove", vec![vx(&x), ve(&y), ve(&y2), opt(&base), ve(&g2), b(&label), n(&nonce)], || match zkp.cp_prove(&x, &y, &y2, base.as_ref(), &g2, &label) {
                Ok(pf) => {
                    let o = vcp(&pf);
                    cproof = Some(pf);
                    Out::Ok(o)
                }
                Err(_) => Out::Err,
            });
            let Some(cpf) = cproof else { continue };
            let mut ok = false;
            r.case("cp_verify", vec![ve(&y), ve(&y2), opt(&base), ve(&g2), vcp(&cpf), b(&label)], || {
                ok = zkp.cp_verify(&y, &y2, base.as_ref(), &g2, &cpf, &label);
                Out::Ok(Val::Bool(ok))
            });
            r.h.check(ok, || "honest CP proof rejected on R255".to_string());
            // ciphertext-bound
            let key = PrivateKey::from(&x, &ctx);
            let m = r.re();
            let rr = x_of(&ns[(j + 1) % ns.len()]);
            let c = key.get_pk().encrypt_with_randomness(&m, &rr);
            tape(&[nonce.clone()]);
            let mut pp = None;
            r.case("popk", vec![vx(&rr), ve(&c.mhr), ve(&c.gr), b(&label), n(&nonce)], || match zkp.encryption_popk(&rr, &c.mhr, &c.gr, &label) {
                Ok(pf) => {
                    let o = vsch(&pf);
                    pp = Some(pf);
                    Out::Ok(o)
                }
                Err(_) => Out::Err,
            });
            if let Some(pp) = pp {
                let mut ok = false;
                r.case("popk_verify", vec![ve(&c.mhr), ve(&c.gr), vsch(&pp), b(&label)], || {
                    ok = zkp.encryption_popk_verify(&c.mhr, &c.gr, &pp, &label).unwrap_or(false);
                    Out::Ok(Val::Bool(ok))
                });
                r.h.check(ok, || "honest popk rejected on R255".to_string());
                if adversarial {
                    let mut l2 = label.clone();
                    l2.push(1);
                    let acc = zkp.encryption_popk_verify(&c.mhr.mul(&gen), &c.gr, &pp, &label).unwrap_or(false);
                    r.h.check(!acc, || "popk with changed mhr accepted on R255".to_string());
                    let acc = zkp.encryption_popk_verify(&c.mhr, &c.gr, &pp, &l2).unwrap_or(false);
                    r.h.check(!acc, || "popk with changed label accepted on R255".to_string());
                }
            }
            let f = key.decryption_factor(&c);
            tape(&[nonce.clone()]);
            let mut dp = None;
            r.case("dproof", vec![vx(&x), ve(key.pk_element()), ve(&f), ve(&c.mhr), ve(&c.gr), b(&label), n(&nonce)], || match zkp.decryption_proof(&x, key.pk_element(), &f, &c.mhr, &c.gr, &label) {
                Ok(pf) => {
                    let o = vcp(&pf);
                    dp = Some(pf);
                    Out::Ok(o)
                }
                Err(_) => Out::Err,
            });
            if let Some(dp) = dp {
                let mut ok = false;
                r.case("dverify", vec![ve(key.pk_element()), ve(&f), ve(&c.mhr), ve(&c.gr), vcp(&dp), b(&label)], || {
                    ok = zkp.verify_decryption(key.pk_element(), &f, &c.mhr, &c.gr, &dp, &label).unwrap_or(false);
                    Out::Ok(Val::Bool(ok))
                });
                r.h.check(ok, || "honest decryption proof rejected on R255".to_string());
                if adversarial {
                    let wrong = f.mul(&gen);
                    let mut acc = true;
                    r.case("dverify", vec![ve(key.pk_element()), ve(&wrong), ve(&c.mhr), ve(&c.gr), vcp(&dp), b(&label)], || {
                        acc = zkp.verify_decryption(key.pk_element(), &wrong, &c.mhr, &c.gr, &dp, &label).unwrap_or(false);
                        Out::Ok(Val::Bool(acc))
                    });
                    r.h.check(!acc, || "wrong decryption factor accepted on R255".to_string());
                }
            }
            if adversarial {
                // single-part changes / free challenge / one equation
                let one = X::mul_identity();
                let variants: Vec<(&str, Schnorr<C>)> = vec![
                    ("challenge", Schnorr { commitment: pf.commitment.clone(), challenge: pf.challenge.add(&one), response: pf.response.clone() }),
                    ("response", Schnorr { commitment: pf.commitment.clone(), challenge: pf.challenge.clone(), response: pf.response.add(&one) }),
                    ("commitment", Schnorr { commitment: pf.commitment.mul(&gen), challenge: pf.challenge.clone(), response: pf.response.clone() }),
                ];
                for (what, p2) in variants {
                    let mut acc = true;
                    r.case("sch_verify", vec![ve(&y), opt(&base), vsch(&p2), b(&label)], || {
                        acc = zkp.schnorr_verify(&y, base.as_ref(), &p2, &label);
                        Out::Ok(Val::Bool(acc))
                    });
                    r.h.check(!acc || (what == "response" && bv == E::mul_identity()), || format!("Schnorr proof with changed {} accepted on R255", what));
                }
                // simulated transcript with free challenge
                let (c, s) = (x_of(&r.rx()), x_of(&r.rx()));
                let t = ctx.emod_pow(&bv, &s).divp(&ctx.emod_pow(&y, &c), &ctx);
                let sim = Schnorr::<C> { commitment: t, challenge: c, response: s };
                let mut acc = true;
                r.case("sch_verify", vec![ve(&y), opt(&base), vsch(&sim), b(&label)], || {
                    acc = zkp.schnorr_verify(&y, base.as_ref(), &sim, &label);
                    Out::Ok(Val::Bool(acc))
                });
                r.h.check(!acc, || "simulated Schnorr transcript accepted on R255".to_string());
                // CP with only the first equation true, hash-consistent
                let y2f = y2.mul(&gen);
                let (t1, t2) = (ctx.emod_pow(&bv, &x_of(&nonce)), ctx.emod_pow(&g2, &x_of(&nonce)));
                let c = zv::cp_challenge(&zkp, &bv, &g2, &y, &y2f, &t1, &t2, None, &label).unwrap();
                let s = x_of(&nonce).add(&c.mul(&x));
                let bad = ChaumPedersen::<C> { commitment1: t1, commitment2: t2, challenge: c, response: s };
                let mut acc = true;
                r.case("cp_verify", vec![ve(&y), ve(&y2f), opt(&base), ve(&g2), vcp(&bad), b(&label)], || {
                    acc = zkp.cp_verify(&y, &y2f, base.as_ref(), &g2, &bad, &label);
                    Out::Ok(Val::Bool(acc))
                });
                r.h.check(!acc, || "CP proof with only one true equation accepted on R255".to_string());
            }
        }
    }
}

fn c07_c08(r: &mut R) {
    let ctx = r.ctx.clone();
    let maxn = if r.h.tier == Tier::Quick { 3 } else { 8 };
    for nt in 1..=maxn {
        let label = r.label(nt);
        let sks: Vec<X> = (0..nt).map(|i| if i == 1 { X::add_identity() } else { x_of(&r.rx()) }).collect();
        let kms: Vec<KeymakerV<C>> = sks.iter().map(|s| KeymakerV::from_sk(PrivateKey::from(s, &ctx), &ctx)).collect();
        let mut pks = vec![];
        for (i, km) in kms.iter().enumerate() {
            let nonce = r.rx();
            tape(&[nonce.clone()]);
            let mut got = None;
            r.case("km_share", vec![vx(&sks[i]), b(&label), n(&nonce)], || match km.share(&label) {
                Ok((pk, pf)) => {
                    let pe = vh::pk_element(&pk).clone();
                    let o = l(vec![ve(&pe), vsch(&pf)]);
                    got = Some((pe, pf));
                    Out::Ok(o)
                }
                Err(_) => Out::Err,
            });
            let Some((pe, pf)) = got else { return };
            let pko = PublicKey::from_element(&pe, &ctx);
            let mut ok = false;
            r.case("km_verify_share", vec![ve(&pe), vsch(&pf), b(&label)], || {
                ok = KeymakerV::verify_share(&ctx, &pko, &pf, &label);
                Out::Ok(Val::Bool(ok))
            });
            r.h.check(ok, || "share proof rejected on R255".to_string());
            pks.push(pe);
        }
        let pko: Vec<PublicKey<C>> = pks.iter().map(|e| PublicKey::from_element(e, &ctx)).collect();
        let mut joint = None;
        r.case("km_combine", vec![ves(&pks)], || {
            let pk = KeymakerV::combine_pks(&ctx, pko);
            let e = vh::pk_element(&pk).clone();
            let o = ve(&e);
            joint = Some(e);
            Out::Ok(o)
        });
        let Some(joint) = joint else { return };
        let rev: Vec<PublicKey<C>> = pks.iter().rev().map(|e| PublicKey::from_element(e, &ctx)).collect();
        r.h.check(*vh::pk_element(&KeymakerV::combine_pks(&ctx, rev)) == joint, || "joint key depends on order on R255".to_string());
        let jpk = PublicKey::<C>::from_element(&joint, &ctx);
        let len = 3;
        let ms: Vec<E> = (0..len).map(|_| r.re()).collect();
        let cts: Vec<Ciphertext<C>> = ms.iter().map(|m| { let x = x_of(&r.rx()); jpk.encrypt_with_randomness(m, &x) }).collect();
        let mut factors: Vec<Vec<E>> = vec![];
        for (i, km) in kms.iter().enumerate() {
            let mut fs = vec![];
            let mut pfs = vec![];
            for c in &cts {
                let nonce = r.rx();
                tape(&[nonce.clone()]);
                let mut got = None;
                r.case("km_dfactor", vec![vx(&sks[i]), ve(&pks[i]), vct(c), b(&label), n(&nonce)], || match km.decryption_factor(c, &label) {
                    Ok((f, pf)) => {
                        let o = l(vec![ve(&f), vcp(&pf)]);
                        got = Some((f, pf));
                        Out::Ok(o)
                    }
                    Err(_) => Out::Err,
                });
                let Some((f, pf)) = got else { return };
                fs.push(f);
                pfs.push(pf);
            }
            let args = vec![ve(&pks[i]), vcts(&cts), ves(&fs), l(pfs.iter().map(vcp).collect()), b(&label)];
            let mut ok = false;
            r.case("km_verify_factors", args, || match KeymakerV::verify_decryption_factors(&ctx, &pks[i], &cts, &fs, &pfs, &label) {
                Ok(x) => {
                    ok = x;
                    Out::Ok(Val::Bool(x))
                }
                Err(_) => Out::Err,
            });
            r.h.check(ok, || "honest batch rejected on R255".to_string());
            for pos in 0..len {
                let mut f2 = fs.clone();
                f2[pos] = f2[pos].mul(ctx.generator());
                let args = vec![ve(&pks[i]), vcts(&cts), ves(&f2), l(pfs.iter().map(vcp).collect()), b(&label)];
                let mut acc = true;
                r.case("km_verify_factors", args, || match KeymakerV::verify_decryption_factors(&ctx, &pks[i], &cts, &f2, &pfs, &label) {
                    Ok(x) => {
                        acc = x;
                        Out::Ok(Val::Bool(x))
                    }
                    Err(_) => Out::Err,
                });
                r.h.check(!acc, || format!("batch with a wrong factor at position {} accepted on R255", pos));
            }
            factors.push(fs);
        }
        let fv: Vec<Val> = factors.iter().map(|fs| ves(fs)).collect();
        let mut got = vec![];
        r.case("km_joint_dec_many", vec![l(fv), vcts(&cts)], || {
            let x = KeymakerV::joint_dec_many(&ctx, &factors, &cts);
            let o = ves(&x);
            got = x;
            Out::Ok(o)
        });
        r.h.check(got == ms, || format!("joint decryption fails on R255 n={}", nt));
        let col: Vec<E> = factors.iter().rev().map(|fs| fs[0].clone()).collect();
        let mut d = None;
        r.case("km_joint_dec", vec![ves(&col), vct(&cts[0])], || {
            let x = KeymakerV::joint_dec(&ctx, col.clone(), &cts[0]);
            let o = ve(&x);
            d = Some(x);
            Out::Ok(o)
        });
        r.h.check(d.as_ref() == Some(&ms[0]), || "joint decryption (reversed order) fails on R255".to_string());
        if nt >= 2 {
            let mut omit: Vec<E> = factors.iter().map(|fs| fs[0].clone()).collect();
            omit.remove(0);
            r.h.check(KeymakerV::joint_dec(&ctx, omit, &cts[0]) != ms[0], || "omitting a factor still decrypts on R255".to_string());
        }
    }
}

fn c09_c10(r: &mut R) {
    let ctx = r.ctx.clone();
    let quick = r.h.tier == Tier::Quick;
    for t in (1..=(if quick { 18 } else { 40 })).step_by(if quick { 4 } else { 3 }) {
        let coeffs = r.rxs(t);
        let xs: Vec<X> = coeffs.iter().map(x_of).collect();
        tape(&coeffs);
        let mut comms: Vec<E> = vec![];
        r.case("th_coeffs", vec![nu(t as u64), l(coeffs.iter().map(n).collect())], || {
            let (cs, ms) = threshold::gen_coefficients(t, &ctx);
            let o = l(vec![vxs(&cs), ves(&ms)]);
            comms = ms;
            Out::Ok(o)
        });
        for j in [0usize, 1, t - 1, 15, 99] {
            let mut share = None;
            r.case("th_share", vec![nu(j as u64), nu(t as u64), vxs(&xs)], || {
                let s = threshold::compute_peer_share(j, t, &xs, &ctx);
                let o = vx(&s);
                share = Some(s);
                Out::Ok(o)
            });
            let mut vkf = None;
            r.case("th_vkf", vec![ves(&comms), nu(t as u64), nu(j as u64)], || {
                let f = threshold::verification_key_factor(&comms, t, j, &ctx);
                let o = ve(&f);
                vkf = Some(f);
                Out::Ok(o)
            });
            if let (Some(s), Some(f)) = (share, vkf) {
                r.h.check(ctx.gmod_pow(&s) == f, || format!("honest share rejected on R255 t={} receiver={}", t, j));
                r.h.check(ctx.gmod_pow(&s.add(&X::mul_identity())) != f, || "altered share accepted on R255".to_string());
            }
        }
    }
    // reconstruction
    for nn in if quick { vec![3usize] } else { vec![3, 5] } {
        for t in 1..=nn {
            let polys: Vec<Vec<X>> = (0..nn).map(|_| (0..t).map(|_| x_of(&r.rx())).collect()).collect();
            let mut secret = X::add_identity();
            for p in &polys {
                secret = secret.add(&p[0]);
            }
            let pk = PublicKey::<C>::from_element(&ctx.gmod_pow(&secret), &ctx);
            let shares: Vec<X> = (0..nn)
                .map(|i| {
                    let mut s = X::add_identity();
                    for p in &polys {
                        s = s.add(&threshold::compute_peer_share(i, t, p, &ctx));
                    }
                    s
                })
                .collect();
            let m = r.re();
            let rr = x_of(&r.rx());
            let c = pk.encrypt_with_randomness(&m, &rr);
            for mask in 1u32..(1 << nn) {
                let mut present: Vec<usize> = (0..nn).filter(|i| mask & (1 << i) != 0).map(|i| i + 1).collect();
                if mask % 2 == 0 {
                    present.reverse();
                }
                let mut divider = E::mul_identity();
                for &i in &present {
                    let mut lag = None;
                    r.case("th_lagrange", vec![nu(i as u64), l(present.iter().map(|x| nu(*x as u64)).collect())], || {
                        let x = threshold::lagrange(i, &present, &ctx);
                        let o = vx(&x);
                        lag = Some(x);
                        Out::Ok(o)
                    });
                    let Some(lag) = lag else { return };
                    divider = divider.mul(&ctx.emod_pow(&ctx.emod_pow(&c.gr, &shares[i - 1]), &lag));
                }
                if present.len() >= t {
                    r.h.check(c.mhr.divp(&divider, &ctx) == m, || format!("trustees {:?} (t={}) do not reconstruct on R255", present, t));
                }
            }
            let nonce = r.rx();
            tape(&[nonce.clone()]);
            let vkey = ctx.gmod_pow(&shares[0]);
            r.case("th_dfactor", vec![vct(&c), vx(&shares[0]), ve(&vkey), b(b"t"), n(&nonce)], || match threshold::decryption_factor(&c, &shares[0], &vkey, b"t", ctx.clone()) {
                Ok((f, pf)) => Out::Ok(l(vec![ve(&f), vcp(&pf)])),
                Err(_) => Out::Err,
            });
        }
    }
}

struct Sh {
    key: PrivateKey<C>,
    pk: PublicKey<C>,
    gens: Vec<E>,
}
fn setup(r: &mut R, nn: usize, seed: &[u8]) -> Sh {
    let ctx = r.ctx.clone();
    let sk = x_of(&r.rx());
    let key = PrivateKey::from(&sk, &ctx);
    let pk = key.get_pk();
    Sh { key, pk, gens: ctx.generators(nn + 1, seed) }
}
fn make_cts(r: &mut R, s: &Sh, nn: usize) -> Vec<Ciphertext<C>> {
    let mut out: Vec<Ciphertext<C>> = vec![];
    for i in 0..nn {
        let c = match i % 4 {
            1 if i > 0 => out[i - 1].clone(),
            2 => Ciphertext { mhr: E::mul_identity(), gr: E::mul_identity() },
            _ => {
                let m = r.re();
                let x = x_of(&r.rx());
                s.pk.encrypt_with_randomness(&m, &x)
            }
        };
        out.push(c);
    }
    out
}
fn perm_of(r: &mut R, nn: usize, k: usize) -> Vec<usize> {
    match k % 3 {
        0 => (0..nn).collect(),
        1 => (0..nn).rev().collect(),
        _ => {
            let mut p: Vec<usize> = (0..nn).collect();
            for i in (1..nn).rev() {
                let j = r.h.rng.below_u(i as u64 + 1) as usize;
                p.swap(i, j);
            }
            p
        }
    }
}
fn vperm(p: &[usize]) -> Val {
    l(p.iter().map(|x| nu(*x as u64)).collect())
}

#[allow(clippy::type_complexity)]
fn shuffle_once(r: &mut R, s: &Sh, nn: usize, k: usize, label: &[u8], prove: bool) -> Option<(Vec<Ciphertext<C>>, Vec<Ciphertext<C>>, Option<ShuffleProof<C>>, Vec<BigUint>, Vec<BigUint>, Vec<usize>)> {
    let ctx = r.ctx.clone();
    let sh = Shuffler::new(&s.pk, &s.gens, &ctx);
    let es = make_cts(r, s, nn);
    let perm = perm_of(r, nn, k);
    let rs = r.rxs(nn);
    tape(&rs);
    let mut res = None;
    r.case("apply_perm", vec![ve(vh::pk_element(&s.pk)), vperm(&perm), vcts(&es), l(rs.iter().map(n).collect())], || {
        let (outs, rs_out) = sh.apply_permutation(&perm, &es);
        let o = l(vec![vcts(&outs), vxs(&rs_out)]);
        res = Some((outs, rs_out));
        Out::Ok(o)
    });
    let (eps, rps) = res?;
    let mut a: Vec<Vec<u8>> = es.iter().map(|c| eb(&s.key.decrypt(c))).collect();
    let mut b2: Vec<Vec<u8>> = eps.iter().map(|c| eb(&s.key.decrypt(c))).collect();
    a.sort();
    b2.sort();
    let mut rel = eps.len() == nn;
    for kx in 0..eps.len().min(nn) {
        let one = s.pk.encrypt_with_randomness(&E::mul_identity(), &rps[perm[kx]]);
        rel &= eps[kx].mhr == es[perm[kx]].mhr.mul(&one.mhr) && eps[kx].gr == es[perm[kx]].gr.mul(&one.gr);
    }
    r.h.check(a == b2 && rel, || format!("shuffle output is not the re-encrypted permutation on R255 N={} perm={:?}", nn, perm));
    if !prove || nn == 0 {
        return Some((es, eps, None, rs, vec![], perm));
    }
    let ptape = r.rxs(4 * nn + 4);
    tape(&ptape);
    let mut proof = None;
    r.case(
        "gen_proof",
        vec![ves(&s.gens), ve(vh::pk_element(&s.pk)), vcts(&es), vcts(&eps), vxs(&rps), vperm(&perm), b(label), l(ptape.iter().map(n).collect())],
        || match sh.gen_proof(&es, &eps, &rps, &perm, label) {
            Ok(pf) => {
                let o = vproof(&pf);
                proof = Some(pf);
                Out::Ok(o)
            }
            Err(_) => Out::Err,
        },
    );
    let pf = proof?;
    let mut ok = false;
    r.case("check_proof", vec![ves(&s.gens), ve(vh::pk_element(&s.pk)), vproof(&pf), vcts(&es), vcts(&eps), b(label)], || match sh.check_proof(&pf, &es, &eps, label) {
        Ok(x) => {
            ok = x;
            Out::Ok(Val::Bool(x))
        }
        Err(_) => Out::Err,
    });
    r.h.check(ok, || format!("honest shuffle proof rejected on R255 N={} perm={:?}", nn, perm));
    let pb = pf.strand_serialize().unwrap();
    let back = ShuffleProof::<C>::strand_deserialize(&pb);
    r.h.check(matches!(&back, Ok(p) if sh.check_proof(p, &es, &eps, label).unwrap_or(false)), || "shuffle proof rejected after wire round trip on R255".to_string());
    Some((es, eps, Some(pf), rs, ptape, perm))
}

fn rebuild(pf: &ShuffleProof<C>, f: impl FnOnce(&mut Commitments<C>, &mut [X; 4], &mut Vec<X>, &mut Vec<X>, &mut Vec<E>, &mut Vec<E>)) -> ShuffleProof<C> {
    let (t, s, sh, sp, cs, ch) = sv::proof_parts(pf);
    let mut t2 = t.clone();
    let mut s2 = [s[0].clone(), s[1].clone(), s[2].clone(), s[3].clone()];
    let (mut sh2, mut sp2, mut cs2, mut ch2) = (sh.clone(), sp.clone(), cs.clone(), ch.clone());
    f(&mut t2, &mut s2, &mut sh2, &mut sp2, &mut cs2, &mut ch2);
    let [a, b2, c, d] = s2;
    sv::proof_from_parts(t2, a, b2, c, d, sh2, sp2, cs2, ch2)
}

fn shuffle(r: &mut R, prop: &str) {
    let quick = r.h.tier == Tier::Quick;
    let ctx = r.ctx.clone();
    if prop == "C03" || prop == "C12" {
        // SCALE (implementation only): vectors of 4097 / 70001 items through the wire types; C03: a shuffle of 4097
        // (thorough 16385) ciphertexts proves and verifies
        let key = PrivateKey::from(&ctx.rnd_exp(), &ctx);
        let pk = key.get_pk();
        for nn in if quick { vec![4097usize] } else { vec![4097, 16385] } {
            let es: Vec<Ciphertext<C>> = (0..nn).map(|_| pk.encrypt(&ctx.rnd())).collect();
            if prop == "C12" {
                let bytes = StrandVectorC(es.clone()).strand_serialize().unwrap();
                let mut want = (nn as u32).to_le_bytes().to_vec();
                for c in &es {
                    let bs = c.strand_serialize().unwrap();
                    want.extend((bs.len() as u32).to_le_bytes());
                    want.extend(bs);
                }
                r.h.check(bytes == want, || format!("StrandVectorC of {} items on R255 is not count || framed items in order", nn));
                r.h.check(StrandVectorC::<C>::strand_deserialize(&bytes).map(|x| x.0 == es).unwrap_or(false), || format!("StrandVectorC of {} items does not round-trip on R255", nn));
                let xs: Vec<X> = (0..(if quick { 70001 } else { 150000 })).map(|_| ctx.rnd_exp()).collect();
                let bx = StrandVectorX::<C>(xs.clone()).strand_serialize().unwrap();
                r.h.check(StrandVectorX::<C>::strand_deserialize(&bx).map(|x| x.0 == xs).unwrap_or(false), || format!("StrandVectorX of {} items does not round-trip on R255", xs.len()));
                continue;
            }
            let gens = ctx.generators(nn + 1, b"scale");
            let sh = Shuffler::new(&pk, &gens, &ctx);
            let (eps, rs, perm) = sh.gen_shuffle(&es);
            let ok = sh.gen_proof(&es, &eps, &rs, &perm, b"s").ok().map(|pf| sh.check_proof(&pf, &es, &eps, b"s").unwrap_or(false)).unwrap_or(false);
            r.h.check(ok, || format!("honest shuffle proof for N = {} rejected on R255", nn));
        }
        if prop == "C12" {
            return;
        }
        // sequences over reused buffers, verified by an independent verifier (see p_shuffle::run_c03)
        let nn = 3;
        let s = setup(r, nn, b"reuse");
        let sh = Shuffler::new(&s.pk, &s.gens, &ctx);
        let mut es: Vec<Ciphertext<C>> = (0..nn).map(|_| s.pk.encrypt(&ctx.rnd())).collect();
        let mut eps = es.clone();
        for round in 0..(if quick { 3 } else { 6 }) {
            for c in es.iter_mut() {
                *c = s.pk.encrypt(&ctx.rnd());
            }
            let (outs, rs, perm) = sh.gen_shuffle(&es);
            for i in 0..nn {
                eps[i] = outs[i].clone();
            }
            let label = r.label(round);
            let Ok(pf) = sh.gen_proof(&es, &eps, &rs, &perm, &label) else {
                r.h.check(false, || "gen_proof failed in a sequence on R255".to_string());
                continue;
            };
            let same = sh.check_proof(&pf, &es, &eps, &label).unwrap_or(false);
            let (pb, esb, epb) = (pf.strand_serialize().unwrap(), StrandVectorC(es.clone()).strand_serialize().unwrap(), StrandVectorC(eps.clone()).strand_serialize().unwrap());
            let (pk2, gens2, ctx2, label2) = (PublicKey::from_element(vh::pk_element(&s.pk), &ctx), s.gens.clone(), ctx.clone(), label.clone());
            let other = std::thread::spawn(move || -> bool {
                let pf2 = ShuffleProof::<C>::strand_deserialize(&pb).unwrap();
                let es2 = StrandVectorC::<C>::strand_deserialize(&esb).unwrap().0;
                let ep2 = StrandVectorC::<C>::strand_deserialize(&epb).unwrap().0;
                Shuffler::new(&pk2, &gens2, &ctx2).check_proof(&pf2, &es2, &ep2, &label2).unwrap_or(false)
            })
            .join()
            .unwrap_or(false);
            r.h.check(same && other, || format!("batch {} of a sequence of honest shuffles over reused buffers on R255: accepted over the prover's buffers: {}, by an independent verifier: {}", round + 1, same, other));
        }
    }
    let sizes: Vec<usize> = match (prop, quick) {
        ("C02", true) => vec![0, 1, 2, 5],
        ("C02", false) => vec![0, 1, 2, 5, 30, 100],
        (_, true) => vec![1, 2, 4],
        (_, false) => vec![1, 2, 3, 10, 40],
    };
    for (k, nn) in sizes.into_iter().enumerate() {
        let s = setup(r, nn, if k % 2 == 0 { b"a" } else { b"" });
        let label = r.label(k + 1);
        let Some((es, eps, pf, _, _, _)) = shuffle_once(r, &s, nn, k + 2, &label, prop != "C02") else { continue };
        if prop == "C02" {
            // cascade
            let mut cur = eps.clone();
            let mut expect: Vec<Vec<u8>> = es.iter().map(|c| eb(&s.key.decrypt(c))).collect();
            expect.sort();
            for kk in 0..3 {
                let sh = Shuffler::new(&s.pk, &s.gens, &ctx);
                let perm = perm_of(r, nn, kk);
                let (outs, _) = sh.apply_permutation(&perm, &cur);
                cur = outs;
            }
            let mut got: Vec<Vec<u8>> = cur.iter().map(|c| eb(&s.key.decrypt(c))).collect();
            got.sort();
            r.h.check(got == expect, || "cascade changed the multiset on R255".to_string());
            continue;
        }
        let Some(pf) = pf else { continue };
        if prop != "C04" {
            continue;
        }
        let sh = Shuffler::new(&s.pk, &s.gens, &ctx);
        let gen = ctx.generator().clone();
        let one = X::mul_identity();
        let verdict = |r: &mut R, what: &str, p2: &ShuffleProof<C>, gens: &Vec<E>, es2: &[Ciphertext<C>], ep2: &[Ciphertext<C>], lab: &[u8]| {
            let sh2 = Shuffler::new(&s.pk, gens, &ctx);
            let o = r.case("check_proof", vec![ves(gens), ve(vh::pk_element(&s.pk)), vproof(p2), vcts(es2), vcts(ep2), b(lab)], || match sh2.check_proof(p2, es2, ep2, lab) {
                Ok(x) => Out::Ok(Val::Bool(x)),
                Err(_) => Out::Err,
            });
            r.h.check(o != Out::Panic && o != Out::Ok(Val::Bool(true)), || format!("verifier accepted or panicked on R255: {} (N={})", what, nn));
        };
        let _ = &sh;
        for i in 0..4 {
            let p2 = rebuild(&pf, |_, s, _, _, _, _| s[i] = s[i].add(&one));
            verdict(r, &format!("s{}+1", i + 1), &p2, &s.gens, &es, &eps, &label);
        }
        for i in 0..nn {
            let p2 = rebuild(&pf, |_, _, sh, _, _, _| sh[i] = sh[i].add(&one));
            verdict(r, "s_hat+1", &p2, &s.gens, &es, &eps, &label);
            let p2 = rebuild(&pf, |_, _, _, sp, _, _| sp[i] = sp[i].add(&one));
            verdict(r, "s_prime+1", &p2, &s.gens, &es, &eps, &label);
            let p2 = rebuild(&pf, |t, _, _, _, _, _| t.t_hats.0[i] = t.t_hats.0[i].mul(&gen));
            verdict(r, "t_hat*g", &p2, &s.gens, &es, &eps, &label);
            let p2 = rebuild(&pf, |_, _, _, _, cs, _| cs[i] = cs[i].mul(&gen));
            verdict(r, "cs*g", &p2, &s.gens, &es, &eps, &label);
            let p2 = rebuild(&pf, |_, _, _, _, _, ch| ch[i] = ch[i].mul(&gen));
            verdict(r, "c_hat*g", &p2, &s.gens, &es, &eps, &label);
        }
        let p2 = rebuild(&pf, |t, _, _, _, _, _| t.t3 = t.t3.mul(&gen));
        verdict(r, "t3*g", &p2, &s.gens, &es, &eps, &label);
        // vector lengths
        for which in 0..5 {
            for delta in [-1i32, 1] {
                let p2 = rebuild(&pf, |t, _, sh, sp, cs, ch| {
                    let fix_e = |v: &mut Vec<E>| {
                        if delta < 0 { v.pop(); } else { v.push(gen.clone()); }
                    };
                    let fix_x = |v: &mut Vec<X>| {
                        if delta < 0 { v.pop(); } else { v.push(one.clone()); }
                    };
                    match which {
                        0 => fix_e(cs),
                        1 => fix_e(ch),
                        2 => fix_e(&mut t.t_hats.0),
                        3 => fix_x(sh),
                        _ => fix_x(sp),
                    }
                });
                verdict(r, &format!("vector {} length {:+}", which, delta), &p2, &s.gens, &es, &eps, &label);
            }
        }
        let p2 = rebuild(&pf, |t, _, _, _, _, _| t.t_hats.0.clear());
        verdict(r, "t_hats empty", &p2, &s.gens, &es, &eps, &label);
        // replays / malformed statements
        let mut l2 = label.clone();
        l2.push(1);
        verdict(r, "changed label", &pf, &s.gens, &es, &eps, &l2);
        let mut es2 = es.clone();
        es2[0] = Ciphertext { mhr: es2[0].mhr.mul(&gen), gr: es2[0].gr.clone() };
        verdict(r, "changed input", &pf, &s.gens, &es2, &eps, &label);
        let mut g2 = s.gens.clone();
        g2[nn] = g2[nn].mul(&gen);
        verdict(r, "changed generator", &pf, &g2, &es, &eps, &label);
        verdict(r, "output list short", &pf, &s.gens, &es, &eps[..nn - 1], &label);
        verdict(r, "N = 0", &pf, &s.gens, &[], &[], &label);
        verdict(r, "generator list short", &pf, &s.gens[..nn].to_vec(), &es, &eps, &label);
        verdict(r, "no generators", &pf, &vec![], &es, &eps, &label);
    }
}

const DES: &[&str] = &["des_e", "des_x", "des_p", "des_ct", "des_pk", "des_sk", "des_schnorr", "des_cp", "des_proof", "des_svec_e", "des_svec_x", "des_svec_c", "des_svec_cp", "des_svec_p", "des_vec_e", "des_vec_ct"];

fn des_op(r: &mut R, op: &str, bytes: &[u8]) -> Out {
    fn oe<T>(x: Result<T, strand::util::StrandError>, f: impl FnOnce(T) -> Val) -> Out {
        match x {
            Ok(v) => Out::Ok(f(v)),
            Err(_) => Out::Err,
        }
    }
    let bs = bytes.to_vec();
    let opn = op.to_string();
    r.case(op, vec![b(bytes)], move || match opn.as_str() {
        "des_e" => oe(E::strand_deserialize(&bs), |e| ve(&e)),
        "des_x" => oe(X::strand_deserialize(&bs), |x| vx(&x)),
        "des_p" => oe(<[u8; 30]>::strand_deserialize(&bs), |p| b(&p)),
        "des_ct" => oe(Ciphertext::<C>::strand_deserialize(&bs), |c| vct(&c)),
        "des_pk" => oe(PublicKey::<C>::strand_deserialize(&bs), |k| ve(vh::pk_element(&k))),
        "des_sk" => oe(PrivateKey::<C>::strand_deserialize(&bs), |k| l(vec![vx(vh::sk_value(&k)), ve(k.pk_element())])),
        "des_schnorr" => oe(Schnorr::<C>::strand_deserialize(&bs), |p| vsch(&p)),
        "des_cp" => oe(ChaumPedersen::<C>::strand_deserialize(&bs), |p| vcp(&p)),
        "des_proof" => oe(ShuffleProof::<C>::strand_deserialize(&bs), |p| vproof(&p)),
        "des_svec_e" => oe(StrandVectorE::<C>::strand_deserialize(&bs), |x| ves(&x.0)),
        "des_svec_x" => oe(StrandVectorX::<C>::strand_deserialize(&bs), |x| vxs(&x.0)),
        "des_svec_c" => oe(StrandVectorC::<C>::strand_deserialize(&bs), |x| vcts(&x.0)),
        "des_svec_cp" => oe(StrandVectorCP::<C>::strand_deserialize(&bs), |x| l(x.0.iter().map(vcp).collect())),
        "des_svec_p" => oe(StrandVectorP::<C>::strand_deserialize(&bs), |x| l(x.0.iter().map(|p| b(p)).collect())),
        "des_vec_e" => oe(Vec::<E>::strand_deserialize(&bs), |x| ves(&x)),
        "des_vec_ct" => oe(Vec::<Ciphertext<C>>::strand_deserialize(&bs), |x| vcts(&x)),
        _ => panic!("unknown des op"),
    })
}

fn objects(r: &mut R, k: usize) -> Vec<(&'static str, &'static str, Val, Vec<u8>)> {
    let ctx = r.ctx.clone();
    let zkp = Zkp::new(&ctx);
    let e = if k % 3 == 0 { E::mul_identity() } else { r.re() };
    let x = if k % 3 == 0 { X::add_identity() } else { x_of(&r.rx()) };
    let key = PrivateKey::from(&x, &ctx);
    let c = { let m = r.re(); let rr = x_of(&r.rx()); key.get_pk().encrypt_with_randomness(&m, &rr) };
    let p = r.pt(k);
    tape(&[r.rx()]);
    let sp = zkp.schnorr_prove(&x, key.pk_element(), None, b"l").unwrap();
    tape(&[r.rx()]);
    let (_, cp) = key.decrypt_and_prove(&c, b"l").unwrap();
    vh::load_exp_tape(vec![]);
    let n = k % 4;
    let es: Vec<E> = (0..n).map(|_| r.re()).collect();
    let xs: Vec<X> = (0..n).map(|_| x_of(&r.rx())).collect();
    let cts: Vec<Ciphertext<C>> = (0..n).map(|_| c.clone()).collect();
    let ps: Vec<[u8; 30]> = (0..n).map(|i| r.pt(i + k)).collect();
    let mut out = vec![
        ("des_e", "ser_e", ve(&e), eb(&e)),
        ("des_x", "ser_x", vx(&x), x.strand_serialize().unwrap()),
        ("des_p", "ser_p", b(&p), p.strand_serialize().unwrap()),
        ("des_ct", "ser_ct", vct(&c), c.strand_serialize().unwrap()),
        ("des_pk", "ser_e", ve(key.pk_element()), key.get_pk().strand_serialize().unwrap()),
        ("des_schnorr", "ser_schnorr", vsch(&sp), sp.strand_serialize().unwrap()),
        ("des_cp", "ser_cp", vcp(&cp), cp.strand_serialize().unwrap()),
        ("des_svec_e", "ser_svec_e", ves(&es), StrandVectorE::<C>(es.clone()).strand_serialize().unwrap()),
        ("des_vec_e", "ser_vec_e", ves(&es), es.strand_serialize().unwrap()),
        ("des_svec_x", "ser_svec_x", vxs(&xs), StrandVectorX::<C>(xs.clone()).strand_serialize().unwrap()),
        ("des_svec_c", "ser_svec_c", vcts(&cts), StrandVectorC::<C>(cts.clone()).strand_serialize().unwrap()),
        ("des_vec_ct", "ser_vec_ct", vcts(&cts), cts.strand_serialize().unwrap()),
        ("des_svec_p", "ser_svec_p", l(ps.iter().map(|p| b(p)).collect()), StrandVectorP::<C>(ps.clone()).strand_serialize().unwrap()),
    ];
    let s = setup(r, 2, b"w");
    if let Some((_, _, Some(pf), _, _, _)) = shuffle_once(r, &s, 2, k, b"w", true) {
        out.push(("des_proof", "ser_proof", vproof(&pf), pf.strand_serialize().unwrap()));
    }
    out
}

fn wire(r: &mut R, prop: &str) {
    if prop == "C12" {
        let ctx = r.ctx.clone();
        let key = PrivateKey::from(&ctx.rnd_exp(), &ctx);
        let c = key.get_pk().encrypt(&ctx.rnd());
        let zkp = Zkp::new(&ctx);
        let sp = zkp.schnorr_prove(&ctx.rnd_exp(), &ctx.rnd(), None, b"w").unwrap();
        let (_, cp) = key.decrypt_and_prove(&c, b"w").unwrap();
        let mut bad: Vec<(&str, usize)> = vec![];
        let mut chk = |name: &'static str, x: Option<usize>| if let Some(k) = x { bad.push((name, k)) };
        chk("element", crate::p_wire::short_writer_agrees(&ctx.rnd()));
        chk("exponent", crate::p_wire::short_writer_agrees(&ctx.rnd_exp()));
        chk("ciphertext", crate::p_wire::short_writer_agrees(&c));
        chk("public key", crate::p_wire::short_writer_agrees(&key.get_pk()));
        chk("private key", crate::p_wire::short_writer_agrees(&key));
        chk("Schnorr proof", crate::p_wire::short_writer_agrees(&sp));
        chk("Chaum-Pedersen proof", crate::p_wire::short_writer_agrees(&cp));
        chk("StrandVectorC", crate::p_wire::short_writer_agrees(&StrandVectorC::<C>(vec![c.clone(), c.clone()])));
        chk("Vec<Ciphertext>", crate::p_wire::short_writer_agrees(&vec![c.clone()]));
        r.h.check(bad.is_empty(), || format!("serialising into a writer that takes at most k bytes per call (k = 0: a buffer one byte too small) does not give the bytes of try_to_vec / an error for {:?} on R255", bad));
    }
    if prop == "C11" {
        let sk = r.rx();
        let skx = x_of(&sk);
        crafted_transport(r, &skx);
    }
    let quick = r.h.tier == Tier::Quick;
    let ctx = r.ctx.clone();
    if prop == "C11" {
        // rule-generated invalid encodings, judged by the model's independent decoder
        let p25519 = (BigUint::from(1u32) << 255) - 19u32;
        let mut cands: Vec<Vec<u8>> = vec![vec![], vec![0; 31], vec![0; 33], vec![0; 32], vec![0xff; 32]];
        let le32 = |x: &BigUint| { let mut v = x.to_bytes_le(); v.resize(32, 0); v };
        for d in [0u32, 1, 2, 18, 19, 20] {
            cands.push(le32(&(&p25519 - 19u32 + d))); // around p: non-canonical field elements
        }
        cands.push(le32(&(&p25519 - 1u32)));
        cands.push(le32(&p25519));
        cands.push(le32(&(&p25519 + 1u32)));
        for _ in 0..(if quick { 60 } else { 600 }) {
            let e = r.re();
            let enc = eb(&e);
            cands.push(enc.clone());
            let mut neg = enc.clone();
            neg[0] ^= 1; // flips the sign bit of s: negative or different point
            cands.push(neg);
            let mut hi = enc.clone();
            hi[31] |= 0x80;
            cands.push(hi);
            cands.push(r.h.rng.bytes(32));
        }
        for c in &cands {
            let c2 = c.clone();
            let out = r.case("e_from_bytes", vec![b(c)], || match ctx.element_from_bytes(&c2) {
                Ok(e) => Out::Ok(ve(&e)),
                Err(_) => Out::Err,
            });
            if let Out::Ok(Val::Bytes(back)) = &out {
                r.h.check(back == c, || format!("accepted ristretto encoding {:?} is not canonical (re-encodes to {:?})", c, back));
            }
            r.h.check(c.len() == 32 || out == Out::Err, || "wrong-length ristretto encoding accepted".to_string());
        }
        let l = r.l.clone();
        let mut xc: Vec<Vec<u8>> = vec![vec![], vec![0; 31], vec![0; 33], vec![0; 32], vec![0xff; 32], le32(&l), le32(&(&l - 1u32)), le32(&(&l + 1u32)), le32(&(BigUint::from(1u32) << 255)), le32(&((BigUint::from(1u32) << 255) + 5u32))];
        for _ in 0..(if quick { 30 } else { 300 }) {
            xc.push(r.h.rng.bytes(32));
            xc.push(le32(&r.rx()));
        }
        for c in &xc {
            let c2 = c.clone();
            let out = r.case("x_from_bytes", vec![b(c)], || match ctx.exp_from_bytes(&c2) {
                Ok(x) => Out::Ok(vx(&x)),
                Err(_) => Out::Err,
            });
            let expect = c.len() == 32 && BigUint::from_bytes_le(c) < l;
            r.h.check((out != Out::Err) == expect, || format!("exp_from_bytes({:?}) acceptance {:?} but canonical is {}", c, out, expect));
        }
        return;
    }
    let reps = if quick { 3 } else { 12 };
    for k in 0..reps {
        for (des, ser, val, bytes) in objects(r, k) {
            if prop == "C12" {
                let b2 = bytes.clone();
                r.case(ser, vec![val.clone()], || Out::Ok(b(&b2)));
                let out = des_op(r, des, &bytes);
                r.h.check(out == Out::Ok(val.clone()), || format!("{} does not round-trip on R255", des));
                for extra in [vec![0u8], vec![1, 2, 3]] {
                    let mut bs = bytes.clone();
                    bs.extend(extra);
                    let out = des_op(r, des, &bs);
                    r.h.check(out == Out::Err, || format!("{} accepts appended bytes on R255", des));
                }
                if des.starts_with("des_svec_") {
                    for pad in [vec![0u8], vec![7, 7, 7]] {
                        for bs in [crate::p_wire::pad_first_inner_item(&bytes, &pad), crate::p_wire::pad_last_inner_item(&bytes, &pad)].into_iter().flatten() {
                            let out = des_op(r, des, &bs);
                            r.h.check(out == Out::Err, || format!("{} accepts trailing bytes inside a nested item on R255", des));
                        }
                    }
                }
                for kk in 1..=4usize {
                    if kk <= bytes.len() {
                        let out = des_op(r, des, &bytes[..bytes.len() - kk]);
                        r.h.check(out == Out::Err, || format!("{} accepts a truncated encoding on R255", des));
                    }
                }
            } else {
                // C13: mutations
                let nb = bytes.len();
                for kk in 0..(if quick { 8 } else { 30 }) {
                    let mut bs = bytes.clone();
                    if nb == 0 {
                        break;
                    }
                    match kk % 4 {
                        0 => { let pos = r.h.rng.below_u(nb as u64) as usize; bs[pos] ^= 1 << r.h.rng.below_u(8); }
                        1 => bs.truncate(r.h.rng.below_u(nb as u64) as usize),
                        2 => bs.extend(r.h.rng.bytes(1 + kk % 3)),
                        _ => {
                            let pos = if nb >= 4 { r.h.rng.below_u((nb - 3) as u64) as usize } else { 0 };
                            let x = [0xffffffffu32, 0x7fffffff, 0x10000000, 0][(kk / 4) % 4].to_le_bytes();
                            for j in 0..4.min(nb) { bs[pos + j] = x[j]; }
                        }
                    }
                    let out = des_op(r, des, &bs);
                    r.h.check(out != Out::Panic, || format!("{} panics on R255", des));
                    let peak = r.h.last_peak;
                    r.h.check(peak <= 64 * bs.len() + (1 << 20), || format!("{} allocated {} bytes at peak for {} input bytes on R255", des, peak, bs.len()));
                }
            }
        }
    }
    if prop == "C13" {
        for op in DES {
            for f in [vec![], vec![0u8], vec![0xff; 4], vec![0xff, 0xff, 0xff, 0xff, 1], vec![1, 0, 0, 0, 0x20, 0, 0, 0], r.h.rng.bytes(32), r.h.rng.bytes(64), r.h.rng.bytes(96)] {
                let out = des_op(r, op, &f);
                r.h.check(out != Out::Panic, || format!("{} panics on R255 for {:?}", op, f));
                let peak = r.h.last_peak;
                r.h.check(peak <= 64 * f.len() + (1 << 20), || format!("{} allocated {} bytes at peak for {} input bytes on R255", op, peak, f.len()));
            }
        }
    }
}

fn c14(r: &mut R) {
    let ctx = r.ctx.clone();
    let n = if r.h.tier == Tier::Quick { 40 } else { 400 };
    let mut seen = std::collections::HashMap::new();
    for i in 0..n {
        let data = r.pt(i);
        let mut enc = None;
        r.case("encode", vec![b(&data)], || match ctx.encode(&data) {
            Ok(e) => {
                let o = ve(&e);
                enc = Some(e);
                Out::Ok(o)
            }
            Err(_) => Out::Err,
        });
        match enc {
            Some(e) => {
                let d = ctx.decode(&e);
                r.case("decode", vec![ve(&e)], || Out::Ok(b(&ctx.decode(&e))));
                r.h.check(d == data, || format!("decode(encode(p)) != p on R255 for {:?}", data));
                let back = E::strand_deserialize(&eb(&e));
                r.h.check(matches!(&back, Ok(x) if *x == e), || "encoded plaintext does not survive serialisation on R255".to_string());
                if let Some(prev) = seen.insert(eb(&e), data) {
                    r.h.check(prev == data, || "two plaintexts share an encoding on R255".to_string());
                }
            }
            None => r.h.check(false, || format!("encode refused the 30-byte plaintext {:?} on R255", data)),
        }
    }
    for _ in 0..20 {
        let p = ctx.rnd_plaintext();
        r.h.check(ctx.encode(&p).is_ok(), || "rnd_plaintext not encodable on R255".to_string());
    }
    // plaintexts that need MANY candidates (corpus/r255_deep_encode.txt: found by random search against
    // curve25519-dalek's decompression only): the rare deep iterations of the search loop; the expected point is
    // the candidate at the recorded depth
    for line in include_str!("../corpus/r255_deep_encode.txt").lines().filter(|l| !l.starts_with('#') && !l.trim().is_empty()) {
        let mut it = line.split_whitespace();
        let depth: usize = it.next().unwrap().parse().unwrap();
        let hex = it.next().unwrap();
        let bytes: Vec<u8> = (0..30).map(|i| u8::from_str_radix(&hex[2 * i..2 * i + 2], 16).unwrap()).collect();
        let mut data = [0u8; 30];
        data.copy_from_slice(&bytes);
        let out = r.case("encode", vec![b(&data)], || match ctx.encode(&data) {
            Ok(e) => Out::Ok(ve(&e)),
            Err(_) => Out::Err,
        });
        let mut want = vec![(2 * (depth % 128)) as u8];
        want.extend(&data);
        want.push((depth / 128) as u8);
        r.h.check(out == Out::Ok(b(&want)), || format!("encode of the 30-byte plaintext {} (first decodable candidate is number {}) is {:?}, expected the point {:02x?}", hex, depth, out, &want[..4]));
        if let Out::Ok(Val::Bytes(eb_)) = &out {
            if let Ok(e) = E::strand_deserialize(eb_) {
                r.h.check(ctx.decode(&e) == data, || format!("decode(encode(p)) != p on R255 for the deep plaintext {}", hex));
            }
        }
    }
}

fn c16_c17(r: &mut R, prop: &str) {
    let ctx = r.ctx.clone();
    let zkp = Zkp::new(&ctx);
    let quick = r.h.tier == Tier::Quick;
    if prop == "C17" {
        for seed in [vec![], b"a".to_vec(), r.h.rng.bytes(1024)] {
            let mut longest: Vec<Vec<u8>> = vec![];
            for size in if quick { if seed.len() == 1 { vec![0usize, 1, 2, 13, 40, 1030] } else { vec![0usize, 1, 2, 13, 40] } } else { vec![0, 1, 2, 50, 400, 2100] } {
                let sd = seed.clone();
                let mut got = vec![];
                r.case("gens", vec![nu(size as u64), b(&seed)], || {
                    let gs = ctx.generators(size, &sd);
                    let o = ves(&gs);
                    got = gs;
                    Out::Ok(o)
                });
                let enc: Vec<Vec<u8>> = got.iter().map(eb).collect();
                r.h.check(enc.len() == size, || "generators: wrong length on R255".to_string());
                let k = longest.len().min(enc.len());
                r.h.check(longest[..k] == enc[..k], || "generators not prefix-stable on R255".to_string());
                let mut d = enc.clone();
                d.sort();
                d.dedup();
                r.h.check(d.len() == enc.len() && !enc.contains(&eb(ctx.generator())) && !enc.contains(&vec![0u8; 32]), || "generators not distinct / equal to g or identity on R255".to_string());
                if enc.len() > longest.len() {
                    longest = enc;
                }
            }
        }
        // SCALE (implementation only): long lists and long seeds against the documented derivation recomputed here
        // (SHAKE-256 over the seed, 64 output bytes per point, from_uniform_bytes)
        for (size, seed_len) in if quick { vec![(4097usize, 5usize), (70001, 0), (3, 70000)] } else { vec![(4097, 5), (16385, 1), (70001, 0), (150000, 9), (3, 70000), (3, 1 << 20)] } {
            use sha3::digest::{ExtendableOutput, Update, XofReader};
            let seed = r.h.rng.bytes(seed_len);
            let gs = ctx.generators(size, &seed);
            let mut shake = sha3::Shake256::default();
            shake.update(&seed);
            let mut reader = shake.finalize_xof();
            let mut bad = None;
            for (i, gpt) in gs.iter().enumerate() {
                let mut u = [0u8; 64];
                reader.read(&mut u);
                let want = curve25519_dalek::ristretto::RistrettoPoint::from_uniform_bytes(&u).compress().to_bytes().to_vec();
                if eb(gpt) != want {
                    bad = Some(i + 1);
                    break;
                }
            }
            r.h.check(gs.len() == size && bad.is_none(), || format!("generators({}) for a {}-byte seed on R255: {} elements, the first that differs from the documented derivation is number {:?}", size, seed_len, gs.len(), bad));
        }
        return;
    }
    for i in 0..(if quick { 5 } else { 30 }) {
        let label = r.label(i);
        let (g, y, t) = (r.re(), r.re(), r.re());
        let mhr = if i % 2 == 0 { None } else { Some(r.re()) };
        let mut c0 = None;
        r.case("sch_chal_bytes", vec![ve(&g), ve(&y), ve(&t), opt(&mhr), b(&label)], || match zv::schnorr_challenge_bytes::<C>(&g, &y, &t, mhr.as_ref(), &label) {
            Ok(bs) => Out::Ok(b(&bs)),
            Err(_) => Out::Err,
        });
        r.case("sch_chal", vec![ve(&g), ve(&y), ve(&t), opt(&mhr), b(&label)], || match zv::schnorr_challenge(&zkp, &g, &y, &t, mhr.as_ref(), &label) {
            Ok(x) => {
                c0 = Some(xn(&x));
                Out::Ok(vx(&x))
            }
            Err(_) => Out::Err,
        });
        let again = zv::schnorr_challenge(&zkp, &g, &y, &t, mhr.as_ref(), &label).ok().map(|x| xn(&x));
        r.h.check(again == c0, || "Schnorr challenge not deterministic on R255".to_string());
        let y2 = y.mul(ctx.generator());
        let c2 = zv::schnorr_challenge(&zkp, &g, &y2, &t, mhr.as_ref(), &label).ok().map(|x| xn(&x));
        r.h.check(c2 != c0, || "changing the public value leaves the challenge unchanged on R255".to_string());
        let (g2, yb, t2) = (r.re(), r.re(), r.re());
        r.case("cp_chal", vec![ve(&g), ve(&g2), ve(&y), ve(&yb), ve(&t), ve(&t2), opt(&mhr), b(&label)], || match zv::cp_challenge(&zkp, &g, &g2, &y, &yb, &t, &t2, mhr.as_ref(), &label) {
            Ok(x) => Out::Ok(vx(&x)),
            Err(_) => Out::Err,
        });
    }
    for nn in if quick { vec![1usize, 3] } else { vec![1, 2, 5, 20] } {
        let s = setup(r, nn, b"c16");
        let label = r.label(nn);
        let Some((es, eps, Some(pf), _, _, _)) = shuffle_once(r, &s, nn, nn, &label, true) else { continue };
        let sh = Shuffler::new(&s.pk, &s.gens, &ctx);
        let (t, _, _, _, cs, ch) = sv::proof_parts(&pf);
        r.case("us", vec![vcts(&es), vcts(&eps), ves(cs), nu(nn as u64), b(&label)], || match sv::shuffle_us(&sh, &es, &eps, cs, nn, &label) {
            Ok(us) => Out::Ok(vxs(&us)),
            Err(_) => Out::Err,
        });
        if nn == 1 {
            for big_n in [1025usize, 2050] {
                r.case("us", vec![vcts(&es), vcts(&eps), ves(cs), nu(big_n as u64), b(&label)], || match sv::shuffle_us(&sh, &es, &eps, cs, big_n, &label) {
                    Ok(us) => Out::Ok(vxs(&us)),
                    Err(_) => Out::Err,
                });
            }
            let us: Vec<BigUint> = sv::shuffle_us(&sh, &es, &eps, cs, 2050, &label).unwrap().iter().map(xn).collect();
            let mut d = us.clone();
            d.sort();
            d.dedup();
            r.h.check(d.len() == us.len(), || "the 2050 per-ciphertext challenges are not pairwise distinct on R255".to_string());
        }
        let tval = match vproof(&pf) {
            Val::List(x) => x[0].clone(),
            _ => unreachable!(),
        };
        r.case("chal", vec![vcts(&es), vcts(&eps), ves(cs), ves(ch), ve(vh::pk_element(&s.pk)), tval, b(&label)], || match sv::shuffle_challenge(&sh, &es, &eps, cs, ch, t, &label) {
            Ok(x) => Out::Ok(vx(&x)),
            Err(_) => Out::Err,
        });
    }
}

fn c18(r: &mut R) {
    let ctx = r.ctx.clone();
    let quick = r.h.tier == Tier::Quick;
    let with_tape = |bytes: &[u8], f: &dyn Fn() -> Val| -> Out {
        vh::load_byte_tape(Some(bytes.to_vec()));
        let res = std::panic::catch_unwind(std::panic::AssertUnwindSafe(f));
        let left = vh::byte_tape_len().unwrap_or(0);
        vh::load_byte_tape(None);
        match res {
            Ok(v) => Out::Ok(l(vec![v, nu((bytes.len() - left) as u64)])),
            Err(_) => Out::Panic,
        }
    };
    for i in 0..(if quick { 20 } else { 200 }) {
        let mut tp = r.h.rng.bytes(100);
        if i == 0 { tp = vec![0xff; 100]; }
        if i == 1 { tp = vec![0; 100]; }
        let c2 = ctx.clone();
        let t2 = tp.clone();
        r.case("rnd_exp", vec![b(&tp)], || with_tape(&t2, &|| vx(&c2.rnd_exp())));
        let c2 = ctx.clone();
        let t2 = tp.clone();
        r.case("rnd_elem", vec![b(&tp)], || with_tape(&t2, &|| ve(&c2.rnd())));
        let c2 = ctx.clone();
        let t2 = tp.clone();
        r.case("rnd_pt", vec![b(&tp)], || with_tape(&t2, &|| b(&c2.rnd_plaintext())));
    }
    // consecutive random plaintexts expose the raw RNG bytes (30 per call): no 12-byte window of the
    // concatenated stream may occur twice (chance collision < 2^-60: a statistical TEST, reported as such)
    {
        let mut stream: Vec<u8> = vec![];
        for i in 0..(if quick { 400 } else { 4000 }) {
            stream.extend(ctx.rnd_plaintext());
            if i % 5 == 0 {
                let _ = ctx.rnd_exp(); // interleave other request sizes (64 bytes)
            }
        }
        if let Some((a, bb)) = crate::p_c18::repeated_window(&stream, 12) {
            r.h.check(false, || format!("random plaintexts on R255 reuse RNG output: bytes {}.. of the concatenated plaintexts (plaintext #{}) repeat bytes {}.. (plaintext #{})", bb, bb / 30, a, a / 30));
        } else {
            r.h.check(true, String::new);
        }
    }
    // the exponent transport encrypts the two halves of the scalar separately: two draws, and the two
    // ciphertexts inside one blob never share their randomness (else m1/m2 is public)
    {
        let sk = PrivateKey::from(&ctx.rnd_exp(), &ctx);
        let pk = sk.get_pk();
        for i in 0..(if quick { 4 } else { 40 }) {
            let x = if i == 0 { ctx.exp_from_u64(0) } else { ctx.rnd_exp() };
            let before = vh::EXP_DRAWS.load(std::sync::atomic::Ordering::SeqCst);
            let blob = ctx.encrypt_exp(&x, sk.get_pk());
            let d = vh::EXP_DRAWS.load(std::sync::atomic::Ordering::SeqCst) - before;
            match blob.ok().and_then(|bl| Vec::<Ciphertext<C>>::strand_deserialize(&bl).ok()) {
                Some(cts) if cts.len() == 2 => {
                    r.h.check(cts[0].gr != cts[1].gr && cts[0] != cts[1], || format!("encrypt_exp on R255 uses the same randomness for both halves of the exponent {:x} (equal gr: the quotient of the two half-plaintexts is public)", xn(&x)));
                    r.h.check(d == 2, || format!("encrypt_exp on R255 made {} exponent draws, expected 2", d));
                }
                _ => r.h.check(false, || "encrypt_exp on R255 does not produce two ciphertexts".to_string()),
            }
        }
    }
    let mut seen = std::collections::HashSet::new();
    for _ in 0..(if quick { 50 } else { 1000 }) {
        let x = xn(&ctx.rnd_exp());
        r.h.check(x < r.l, || "rnd_exp out of range on R255".to_string());
        r.h.check(seen.insert(x), || "rnd_exp repeated a value on R255".to_string());
        let e = ctx.rnd();
        r.h.check(E::strand_deserialize(&eb(&e)).is_ok(), || "rnd() not a valid point on R255".to_string());
    }
}

/// C19: deterministic outputs under whatever build this is (sequential / rayon), inputs made with
/// the build's own randomness (tapes do not reach rayon's worker threads)
fn c19(r: &mut R) {
    let ctx = r.ctx.clone();
    let quick = r.h.tier == Tier::Quick;
    for nn in if quick { vec![1usize, 6, 40] } else { vec![1, 2, 17, 120, 400] } {
        let seed = r.h.rng.bytes(3);
        let sd = seed.clone();
        r.case("gens", vec![nu(nn as u64 + 1), b(&seed)], || Out::Ok(ves(&ctx.generators(nn + 1, &sd))));
        let s = setup(r, nn, &seed);
        let sh = Shuffler::new(&s.pk, &s.gens, &ctx);
        let es: Vec<Ciphertext<C>> = (0..nn).map(|_| s.pk.encrypt(&ctx.rnd())).collect();
        let label = r.label(nn);
        let (eps, rs, perm) = sh.gen_shuffle(&es);
        let Ok(pf) = sh.gen_proof(&es, &eps, &rs, &perm, &label) else {
            r.h.check(false, || "gen_proof failed on R255".to_string());
            continue;
        };
        let esb = StrandVectorC(es.clone()).strand_serialize().unwrap();
        let e2 = esb.clone();
        r.case("ser_svec_c", vec![vcts(&es)], || Out::Ok(b(&e2)));
        let e3 = esb.clone();
        r.case("des_svec_c", vec![b(&esb)], || match StrandVectorC::<C>::strand_deserialize(&e3) {
            Ok(x) => Out::Ok(vcts(&x.0)),
            Err(_) => Out::Err,
        });
        let rsb = StrandVectorX::<C>(rs.clone()).strand_serialize().unwrap();
        let r2 = rsb.clone();
        r.case("ser_svec_x", vec![vxs(&rs)], || Out::Ok(b(&r2)));
        let (t, _, _, _, cs, ch) = sv::proof_parts(&pf);
        r.case("us", vec![vcts(&es), vcts(&eps), ves(cs), nu(nn as u64), b(&label)], || match sv::shuffle_us(&sh, &es, &eps, cs, nn, &label) {
            Ok(us) => Out::Ok(vxs(&us)),
            Err(_) => Out::Err,
        });
        let tval = match vproof(&pf) {
            Val::List(x) => x[0].clone(),
            _ => unreachable!(),
        };
        r.case("chal", vec![vcts(&es), vcts(&eps), ves(cs), ves(ch), ve(vh::pk_element(&s.pk)), tval, b(&label)], || match sv::shuffle_challenge(&sh, &es, &eps, cs, ch, t, &label) {
            Ok(x) => Out::Ok(vx(&x)),
            Err(_) => Out::Err,
        });
        let mut ok = false;
        r.case("check_proof", vec![ves(&s.gens), ve(vh::pk_element(&s.pk)), vproof(&pf), vcts(&es), vcts(&eps), b(&label)], || match sh.check_proof(&pf, &es, &eps, &label) {
            Ok(x) => {
                ok = x;
                Out::Ok(Val::Bool(x))
            }
            Err(_) => Out::Err,
        });
        r.h.check(ok, || format!("honest proof rejected on R255 N={}", nn));
        let one = X::mul_identity();
        let p2 = rebuild(&pf, |_, _, _, sp, _, _| sp[nn / 2] = sp[nn / 2].add(&one));
        let mut acc = true;
        r.case("check_proof", vec![ves(&s.gens), ve(vh::pk_element(&s.pk)), vproof(&p2), vcts(&es), vcts(&eps), b(&label)], || match sh.check_proof(&p2, &es, &eps, &label) {
            Ok(x) => {
                acc = x;
                Out::Ok(Val::Bool(x))
            }
            Err(_) => Out::Err,
        });
        r.h.check(!acc, || "mutated proof accepted on R255".to_string());
        for pos in [0, nn / 2, nn - 1] {
            let p2 = rebuild(&pf, |_, _, sh, _, _, _| sh[pos] = sh[pos].add(&one));
            let mut acc = true;
            r.case("check_proof", vec![ves(&s.gens), ve(vh::pk_element(&s.pk)), vproof(&p2), vcts(&es), vcts(&eps), b(&label)], || match sh.check_proof(&p2, &es, &eps, &label) {
                Ok(x) => {
                    acc = x;
                    Out::Ok(Val::Bool(x))
                }
                Err(_) => Out::Err,
            });
            r.h.check(!acc, || format!("proof with a changed chain response at position {} accepted on R255 N={}", pos, nn));
        }
        // joint decryption of lists with two trustees
        let sks = [x_of(&r.rx()), x_of(&r.rx())];
        let kms: Vec<KeymakerV<C>> = sks.iter().map(|x| KeymakerV::from_sk(PrivateKey::from(x, &ctx), &ctx)).collect();
        let pks: Vec<E> = sks.iter().map(|x| ctx.gmod_pow(x)).collect();
        let joint = KeymakerV::combine_pks(&ctx, pks.iter().map(|e| PublicKey::from_element(e, &ctx)).collect());
        let ms: Vec<E> = (0..nn).map(|_| ctx.rnd()).collect();
        let cts: Vec<Ciphertext<C>> = ms.iter().map(|m| joint.encrypt(m)).collect();
        let mut factors = vec![];
        for (i, km) in kms.iter().enumerate() {
            if let Ok((fs, pfs)) = km.decryption_factor_many(&cts, &label) {
                let args = vec![ve(&pks[i]), vcts(&cts), ves(&fs), l(pfs.iter().map(vcp).collect()), b(&label)];
                let mut okb = false;
                r.case("km_verify_factors", args, || match KeymakerV::verify_decryption_factors(&ctx, &pks[i], &cts, &fs, &pfs, &label) {
                    Ok(x) => {
                        okb = x;
                        Out::Ok(Val::Bool(x))
                    }
                    Err(_) => Out::Err,
                });
                r.h.check(okb, || "honest batch rejected on R255".to_string());
                factors.push(fs);
            }
        }
        if factors.len() == 2 {
            let fv: Vec<Val> = factors.iter().map(|fs| ves(fs)).collect();
            let mut got = vec![];
            r.case("km_joint_dec_many", vec![l(fv), vcts(&cts)], || {
                let x = KeymakerV::joint_dec_many(&ctx, &factors, &cts);
                let o = ves(&x);
                got = x;
                Out::Ok(o)
            });
            r.h.check(got == ms, || format!("joint decryption of a list of {} fails on R255", nn));
        }
    }
}

pub fn run(h: &mut Harness) {
    let prop = h.prop.clone();
    h.comment("context R255");
    let mut r = R { h, ctx: RistrettoCtx, l: ell() };
    let res = std::panic::catch_unwind(std::panic::AssertUnwindSafe(|| match prop.as_str() {
        "C15" => c15(&mut r),
        "C01" => c01(&mut r),
        "C05" => sigma(&mut r, false),
        "C06" => sigma(&mut r, true),
        "C07" | "C08" => c07_c08(&mut r),
        "C09" | "C10" => c09_c10(&mut r),
        "C02" | "C03" | "C04" => shuffle(&mut r, &prop),
        "C11" | "C13" => wire(&mut r, &prop),
        "C12" => {
            wire(&mut r, &prop);
            shuffle(&mut r, &prop); // only its SCALE part runs for C12
        }
        "C14" => c14(&mut r),
        "C16" | "C17" => c16_c17(&mut r, &prop),
        "C18" => c18(&mut r),
        "C19" => c19(&mut r),
        _ => {}
    }));
    vh::load_exp_tape(vec![]);
    vh::load_byte_tape(None);
    if res.is_err() {
        h.prop_evals += 1;
        h.prop_failures.push(format!("harness panicked while exploring {} on R255", prop));
    }
}
