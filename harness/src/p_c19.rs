//! C19: deterministic outputs of the build under test (sequential or rayon, any thread count)
//! against the model; objects produced by one build are verified / decrypted by the other
//! through a corpus file (env C19_OUT / C19_IN).
use crate::core::*;
use crate::ctxs::NatCtx;
use crate::env::Env;
use crate::p_shuffle::{self, vcts, vnats, PlainProof};
use crate::val::*;
use num_bigint::BigUint;
use std::io::Write;
use strand::context::Ctx;
use strand::elgamal::{Ciphertext, PrivateKey, PublicKey};
use strand::serialization::*;
use strand::shuffler::verif as sv;
use strand::shuffler::{ShuffleProof, Shuffler};
use strand::verif_hooks::KeymakerV;

fn hex(b: &[u8]) -> String {
    b.iter().map(|x| format!("{:02x}", x)).collect()
}
fn unhex(s: &str) -> Vec<u8> {
    (0..s.len() / 2).map(|i| u8::from_str_radix(&s[2 * i..2 * i + 2], 16).unwrap()).collect()
}

pub fn run<C: NatCtx>(v: &mut Env<C>) {
    let quick = v.h.tier == Tier::Quick;
    let ctx = v.ctx.clone();
    let tok = v.tok.clone();
    let (p, q, g) = (v.p.clone(), v.q.clone(), v.g.clone());
    if v.small && p != big(23) && p != big(59) {
        return;
    }
    // sizes straddle the usual parallel block sizes (32 .. 1024): a split / chunk / min_len boundary inside
    // the list, with a remainder
    let sizes: Vec<usize> = if v.small {
        if quick { if p == big(23) { vec![1, 4, 50, 65, 129, 300] } else { vec![1, 33, 257, 520] } } else { vec![1, 2, 17, 33, 65, 120, 129, 257, 500, 513, 1025, 2049] }
    } else if quick { vec![3] } else { vec![2, 10, 40, 70] };
    // ---- SCALE (implementation only; this code runs in the sequential AND in the rayon build): vectors far beyond
    // any parallel block size are encoded as count || framed items IN ORDER (reference assembled here item by
    // item), decode back, and a shuffle of that size proves and verifies
    if v.small && p == big(23) && C::kind() == 'B' {
        crate::p_c18::permutation_mixes(&mut v.h, if cfg!(feature = "rayon") { "rayon build" } else { "sequential build" });
        let key = PrivateKey::from(&v.x(&big(5)), &ctx);
        for nn in if quick { vec![8193usize, 8195, 20001, 70001] } else { vec![4097, 8193, 8195, 16385, 20001, 32769, 70001, 140001] } {
            let es: Vec<C::E> = (0..nn).map(|_| ctx.rnd()).collect();
            let xs: Vec<C::X> = (0..nn).map(|_| ctx.rnd_exp()).collect();
            let cts: Vec<Ciphertext<C>> = es.iter().map(|m| key.get_pk().encrypt(m)).collect();
            fn framed<T: StrandSerialize>(items: &[T]) -> Vec<u8> {
                let mut o = (items.len() as u32).to_le_bytes().to_vec();
                for it in items {
                    let bs = it.strand_serialize().unwrap();
                    o.extend((bs.len() as u32).to_le_bytes());
                    o.extend(bs);
                }
                o
            }
            let be = StrandVectorE::<C>(es.clone()).strand_serialize().unwrap();
            let bx = StrandVectorX::<C>(xs.clone()).strand_serialize().unwrap();
            let bc = StrandVectorC::<C>(cts.clone()).strand_serialize().unwrap();
            let first_diff = |a: &[u8], b_: &[u8]| a.iter().zip(b_.iter()).position(|(x, y)| x != y).unwrap_or(a.len().min(b_.len()));
            for (what, got, want) in [("StrandVectorE", &be, framed(&es)), ("StrandVectorX", &bx, framed(&xs)), ("StrandVectorC", &bc, framed(&cts))] {
                v.h.check(*got == want, || format!("{} of {} items: the encoding ({} bytes) is not count || framed items in order ({} bytes, first difference at byte {}) on {}", what, nn, got.len(), want.len(), first_diff(got, &want), tok));
            }
            v.h.check(StrandVectorE::<C>::strand_deserialize(&be).map(|x| x.0 == es).unwrap_or(false), || format!("StrandVectorE of {} items does not round-trip on {}", nn, tok));
            v.h.check(StrandVectorX::<C>::strand_deserialize(&bx).map(|x| x.0 == xs).unwrap_or(false), || format!("StrandVectorX of {} items does not round-trip on {}", nn, tok));
            v.h.check(StrandVectorC::<C>::strand_deserialize(&bc).map(|x| x.0 == cts).unwrap_or(false), || format!("StrandVectorC of {} items does not round-trip on {}", nn, tok));
            if nn <= 20001 || !quick {
                let gens = ctx.generators(nn + 1, b"scale19");
                let pk19 = key.get_pk();
                let sh = Shuffler::new(&pk19, &gens, &ctx);
                let (eps, rs, perm) = sh.gen_shuffle(&cts);
                let ok = sh.gen_proof(&cts, &eps, &rs, &perm, b"s").ok().map(|pf| sh.check_proof(&pf, &cts, &eps, b"s").unwrap_or(false)).unwrap_or(false);
                v.h.check(ok, || format!("honest shuffle proof for N = {} rejected on {}", nn, tok));
            }
        }
    }
    let mut out_lines: Vec<String> = vec![];
    for nn in sizes {
        let sk = v.rnd_exp();
        let seed = v.h.rng.bytes(5);
        // derived generators (parallel in neither build, but part of the deterministic surface)
        let c2 = ctx.clone();
        let sd = seed.clone();
        v.case("gens", vec![nu(nn as u64 + 1), b(&seed)], || Out::Ok(l(c2.generators(nn + 1, &sd).iter().map(|e| Val::Nat(C::e_val(e))).collect())));
        let key = PrivateKey::from(&v.x(&sk), &ctx);
        let pk = key.get_pk();
        let pkv = C::e_val(key.pk_element());
        let gens = ctx.generators(nn + 1, &seed);
        let gensv: Vec<BigUint> = gens.iter().map(C::e_val).collect();
        // everything below uses the build's own randomness (tapes do not reach worker threads)
        let es: Vec<Ciphertext<C>> = (0..nn).map(|_| pk.encrypt(&ctx.rnd())).collect();
        let sh = Shuffler::new(&pk, &gens, &ctx);
        let label = v.label(nn);
        let (eps, rs, perm) = sh.gen_shuffle(&es);
        let pf = match sh.gen_proof(&es, &eps, &rs, &perm, &label) {
            Ok(p) => p,
            Err(_) => {
                v.h.check(false, || format!("gen_proof failed on {}", tok));
                continue;
            }
        };
        let pp = PlainProof::from(&pf);
        // vector serialisation: bytes and order
        let esb = StrandVectorC(es.clone()).strand_serialize().unwrap();
        let esb2 = esb.clone();
        v.case("ser_svec_c", vec![vcts(&es)], || Out::Ok(b(&esb2)));
        let esb3 = esb.clone();
        v.case("des_svec_c", vec![b(&esb)], || match StrandVectorC::<C>::strand_deserialize(&esb3) {
            Ok(x) => Out::Ok(vcts(&x.0)),
            Err(_) => Out::Err,
        });
        let csb = StrandVectorE::<C>(pp.cs.iter().map(C::e_raw).collect()).strand_serialize().unwrap();
        let csb2 = csb.clone();
        v.case("ser_svec_e", vec![vnats(&pp.cs)], || Out::Ok(b(&csb2)));
        let rsv: Vec<BigUint> = rs.iter().map(C::x_val).collect();
        let rsb = StrandVectorX::<C>(rs.clone()).strand_serialize().unwrap();
        let rsb2 = rsb.clone();
        v.case("ser_svec_x", vec![vnats(&rsv)], || Out::Ok(b(&rsb2)));
        let rsb3 = rsb.clone();
        v.case("des_svec_x", vec![b(&rsb)], || match StrandVectorX::<C>::strand_deserialize(&rsb3) {
            Ok(x) => Out::Ok(l(x.0.iter().map(|e| Val::Nat(C::x_val(e))).collect())),
            Err(_) => Out::Err,
        });
        // a vector with one invalid item: error in either build
        let mut bad = esb.clone();
        if bad.len() > 12 {
            let k = bad.len() - 1;
            bad[k] ^= 0x80;
            bad[8] ^= 0x01;
            let bad2 = bad.clone();
            v.case("des_svec_c", vec![b(&bad)], || match StrandVectorC::<C>::strand_deserialize(&bad2) {
                Ok(x) => Out::Ok(vcts(&x.0)),
                Err(_) => Out::Err,
            });
        }
        // challenges
        let cs_e: Vec<C::E> = pp.cs.iter().map(C::e_raw).collect();
        let ch_e: Vec<C::E> = pp.c_hats.iter().map(C::e_raw).collect();
        v.case("us", vec![vcts(&es), vcts(&eps), vnats(&pp.cs), nu(nn as u64), b(&label)], || match sv::shuffle_us(&sh, &es, &eps, &cs_e, nn, &label) {
            Ok(us) => Out::Ok(l(us.iter().map(|x| Val::Nat(C::x_val(x))).collect())),
            Err(_) => Out::Err,
        });
        let (tc, _, _, _, _, _) = sv::proof_parts(&pf);
        let tval = match pp.val() {
            Val::List(x) => x[0].clone(),
            _ => unreachable!(),
        };
        v.case("chal", vec![vcts(&es), vcts(&eps), vnats(&pp.cs), vnats(&pp.c_hats), n(&pkv), tval, b(&label)], || match sv::shuffle_challenge(&sh, &es, &eps, &cs_e, &ch_e, tc, &label) {
            Ok(x) => Out::Ok(Val::Nat(C::x_val(&x))),
            Err(_) => Out::Err,
        });
        // verification decisions: honest and mutated
        let mut ok = false;
        v.case("check_proof", vec![vnats(&gensv), n(&pkv), pp.val(), vcts(&es), vcts(&eps), b(&label)], || match sh.check_proof(&pf, &es, &eps, &label) {
            Ok(r) => {
                ok = r;
                Out::Ok(Val::Bool(r))
            }
            Err(_) => Out::Err,
        });
        v.h.check(ok, || format!("honest proof rejected on {} N={}", tok, nn));
        let mut m = pp.clone();
        let k = nn / 2;
        m.s_primes[k] = (&m.s_primes[k] + 1u32) % &q;
        let mpf = m.to::<C>();
        let mut acc = true;
        v.case("check_proof", vec![vnats(&gensv), n(&pkv), m.val(), vcts(&es), vcts(&eps), b(&label)], || match sh.check_proof(&mpf, &es, &eps, &label) {
            Ok(r) => {
                acc = r;
                Out::Ok(Val::Bool(r))
            }
            Err(_) => Out::Err,
        });
        v.h.check(!acc, || format!("mutated proof accepted on {} N={}", tok, nn));
        // responses are not hashed: a changed chain response must be caught by ITS chain equation,
        // at the first, the middle and the last position
        for pos in [0, nn / 2, nn - 1] {
            let mut m = pp.clone();
            m.s_hats[pos] = (&m.s_hats[pos] + 1u32) % &q;
            let mpf = m.to::<C>();
            let mut acc = true;
            v.case("check_proof", vec![vnats(&gensv), n(&pkv), m.val(), vcts(&es), vcts(&eps), b(&label)], || match sh.check_proof(&mpf, &es, &eps, &label) {
                Ok(r) => {
                    acc = r;
                    Out::Ok(Val::Bool(r))
                }
                Err(_) => Out::Err,
            });
            v.h.check(!acc, || format!("proof with a changed chain response at position {} accepted on {} N={}", pos, tok, nn));
        }
        let mut m = pp.clone();
        m.t_hats[nn - 1] = (&m.t_hats[nn - 1] * &g) % &p;
        let mpf = m.to::<C>();
        v.case("check_proof", vec![vnats(&gensv), n(&pkv), m.val(), vcts(&es), vcts(&eps), b(&label)], || match sh.check_proof(&mpf, &es, &eps, &label) {
            Ok(r) => Out::Ok(Val::Bool(r)),
            Err(_) => Out::Err,
        });
        // joint decryption of lists + batch verification (two trustees)
        let sk2 = v.rnd_exp();
        let kms = [KeymakerV::from_sk(PrivateKey::from(&v.x(&sk), &ctx), &ctx), KeymakerV::from_sk(PrivateKey::from(&v.x(&sk2), &ctx), &ctx)];
        let pk2v = g.modpow(&sk2, &p);
        let joint = KeymakerV::combine_pks(&ctx, vec![PublicKey::from_element(&C::e_raw(&pkv), &ctx), PublicKey::from_element(&C::e_raw(&pk2v), &ctx)]);
        let ms: Vec<C::E> = (0..nn).map(|_| ctx.rnd()).collect();
        let jcts: Vec<Ciphertext<C>> = ms.iter().map(|m| joint.encrypt(m)).collect();
        let mut factors = vec![];
        let mut proofs = vec![];
        for km in &kms {
            match km.decryption_factor_many(&jcts, &label) {
                Ok((fs, pfs)) => {
                    factors.push(fs);
                    proofs.push(pfs);
                }
                Err(_) => v.h.check(false, || format!("decryption_factor_many failed on {}", tok)),
            }
        }
        if factors.len() == 2 {
            let fv: Vec<Val> = factors.iter().map(|fs| l(fs.iter().map(|f| Val::Nat(C::e_val(f))).collect())).collect();
            let mut got = vec![];
            v.case("km_joint_dec_many", vec![l(fv), vcts(&jcts)], || {
                let r = KeymakerV::joint_dec_many(&ctx, &factors, &jcts);
                let o = l(r.iter().map(|e| Val::Nat(C::e_val(e))).collect());
                got = r;
                Out::Ok(o)
            });
            v.h.check(got == ms, || format!("joint decryption of a list of {} fails on {}", nn, tok));
            for (ti, pkx) in [pkv.clone(), pk2v.clone()].iter().enumerate() {
                let args = vec![n(pkx), vcts(&jcts), l(factors[ti].iter().map(|f| Val::Nat(C::e_val(f))).collect()), l(proofs[ti].iter().map(|p| v.vcp(p)).collect()), b(&label)];
                let mut r = false;
                let pke = C::e_raw(pkx);
                v.case("km_verify_factors", args, || match KeymakerV::verify_decryption_factors(&ctx, &pke, &jcts, &factors[ti], &proofs[ti], &label) {
                    Ok(x) => {
                        r = x;
                        Out::Ok(Val::Bool(x))
                    }
                    Err(_) => Out::Err,
                });
                v.h.check(r, || format!("honest batch rejected on {}", tok));
            }
            // one wrong factor in the middle
            use strand::context::Element;
            let mut f2 = factors[0].clone();
            f2[nn / 2] = f2[nn / 2].mul(&C::e_raw(&g)).modp(&ctx);
            let args = vec![n(&pkv), vcts(&jcts), l(f2.iter().map(|f| Val::Nat(C::e_val(f))).collect()), l(proofs[0].iter().map(|p| v.vcp(p)).collect()), b(&label)];
            let pke = C::e_raw(&pkv);
            v.case("km_verify_factors", args, || match KeymakerV::verify_decryption_factors(&ctx, &pke, &jcts, &f2, &proofs[0], &label) {
                Ok(x) => Out::Ok(Val::Bool(x)),
                Err(_) => Out::Err,
            });
        }
        // corpus record for the other build
        let mut dec: Vec<BigUint> = es.iter().map(|c| C::e_val(&key.decrypt(c))).collect();
        dec.sort();
        out_lines.push(format!(
            "{}|{}|{}|{}|{}|{}|{}|{}",
            tok,
            hex(&StrandVectorE::<C>(gens.clone()).strand_serialize().unwrap()),
            hex(&pk.strand_serialize().unwrap()),
            hex(&pf.strand_serialize().unwrap()),
            hex(&esb),
            hex(&StrandVectorC(eps.clone()).strand_serialize().unwrap()),
            hex(&label),
            hex(&key.strand_serialize().unwrap())
        ));
    }
    if let Ok(path) = std::env::var("C19_OUT") {
        let mut f = std::fs::OpenOptions::new().create(true).append(true).open(path).unwrap();
        for l in &out_lines {
            writeln!(f, "{}", l).unwrap();
        }
    }
    if let Ok(path) = std::env::var("C19_IN") {
        if let Ok(text) = std::fs::read_to_string(path) {
            for line in text.lines() {
                let f: Vec<&str> = line.split('|').collect();
                if f.len() != 8 || f[0] != tok {
                    continue;
                }
                let r = (|| -> Result<bool, strand::util::StrandError> {
                    let gens = StrandVectorE::<C>::strand_deserialize(&unhex(f[1]))?.0;
                    let pk = PublicKey::<C>::strand_deserialize(&unhex(f[2]))?;
                    let pk = PublicKey::from_element(strand::verif_hooks::pk_element(&pk), &ctx);
                    let pf = ShuffleProof::<C>::strand_deserialize(&unhex(f[3]))?;
                    let es = StrandVectorC::<C>::strand_deserialize(&unhex(f[4]))?.0;
                    let eps = StrandVectorC::<C>::strand_deserialize(&unhex(f[5]))?.0;
                    let label = unhex(f[6]);
                    let key = PrivateKey::<C>::strand_deserialize(&unhex(f[7]))?;
                    let key = PrivateKey::from(strand::verif_hooks::sk_value(&key), &ctx);
                    let sh = Shuffler::new(&pk, &gens, &ctx);
                    let ok = sh.check_proof(&pf, &es, &eps, &label)?;
                    let mut a: Vec<BigUint> = es.iter().map(|c| C::e_val(&key.decrypt(c))).collect();
                    let mut b2: Vec<BigUint> = eps.iter().map(|c| C::e_val(&key.decrypt(c))).collect();
                    a.sort();
                    b2.sort();
                    Ok(ok && a == b2)
                })();
                v.h.stat("cross_build_records");
                v.h.check(matches!(r, Ok(true)), || format!("a shuffle + proof produced by the other build does not verify / decrypt in this build on {}", tok));
            }
        }
    }
}
