//! C15: every trait method against the model; group / ring laws on the implementation.
use crate::core::*;
use crate::ctxs::NatCtx;
use crate::env::Env;
use crate::val::*;
use num_bigint::BigUint;
use num_traits::{One, Zero};
use strand::context::{Element, Exponent};

/// the independent arbitrary-precision reference (num-bigint arithmetic in the harness, Fermat inverses):
/// whenever the implementation returns a value it must be this integer
fn agree<C: NatCtx>(v: &mut Env<C>, what: &str, args: &[&BigUint], out: &Out, want: Option<BigUint>) {
    if let (Out::Ok(Val::Nat(got)), Some(w)) = (out, &want) {
        let tok = v.tok.clone();
        v.h.check(got == w, || format!("{}({}) = {:x} on {}, integer arithmetic gives {:x}", what, args.iter().map(|a| format!("{:x}", a)).collect::<Vec<_>>().join(", "), got, tok, w));
    }
}
fn inv_ref(a: &BigUint, m: &BigUint) -> Option<BigUint> {
    if (a % m).is_zero() { None } else { Some(a.modpow(&(m - 2u32), m)) }
}

fn ops_elem<C: NatCtx>(v: &mut Env<C>, a: &BigUint, b: &BigUint) {
    let (ea, eb) = (v.e(a), v.e(b));
    let ctx = v.ctx.clone();
    let p = v.p.clone();
    let o = v.case("mul", vec![n(a), n(b)], || Out::Ok(Val::Nat(C::e_val(&ea.mul(&eb)))));
    agree(v, "mul", &[a, b], &o, Some(a * b));
    let o = v.case("div", vec![n(a), n(b)], || Out::Ok(Val::Nat(C::e_val(&ea.divp(&eb, &ctx)))));
    agree(v, "div", &[a, b], &o, inv_ref(b, &p).map(|i| a * i));
}
fn ops_elem1<C: NatCtx>(v: &mut Env<C>, a: &BigUint) {
    let ea = v.e(a);
    let ctx = v.ctx.clone();
    let p = v.p.clone();
    let o = v.case("inv", vec![n(a)], || Out::Ok(Val::Nat(C::e_val(&ea.invp(&ctx)))));
    agree(v, "inv", &[a], &o, inv_ref(a, &p));
    let o = v.case("modp", vec![n(a)], || Out::Ok(Val::Nat(C::e_val(&ea.modp(&ctx)))));
    agree(v, "modp", &[a], &o, Some(a % &p));
}
fn ops_pow<C: NatCtx>(v: &mut Env<C>, a: &BigUint, x: &BigUint) {
    let (ea, ex) = (v.e(a), v.x(x));
    let ctx = v.ctx.clone();
    let p = v.p.clone();
    let o = v.case("epow", vec![n(a), n(x)], || Out::Ok(Val::Nat(C::e_val(&ctx.emod_pow(&ea, &ex)))));
    agree(v, "emod_pow", &[a, x], &o, Some(a.modpow(x, &p)));
    // the Element-trait method with the modulus passed explicitly
    let pm = v.e(&v.p);
    let o = v.case("epow", vec![n(a), n(x)], || Out::Ok(Val::Nat(C::e_val(&ea.mod_pow(&ex, &pm)))));
    agree(v, "mod_pow", &[a, x], &o, Some(a.modpow(x, &p)));
}
fn ops_exp<C: NatCtx>(v: &mut Env<C>, x: &BigUint, y: &BigUint) {
    let (ex, ey) = (v.x(x), v.x(y));
    let ctx = v.ctx.clone();
    let q = v.q.clone();
    let o = v.case("xadd", vec![n(x), n(y)], || Out::Ok(Val::Nat(C::x_val(&ex.add(&ey)))));
    agree(v, "add", &[x, y], &o, Some(x + y));
    let o = v.case("xsub", vec![n(x), n(y)], || Out::Ok(Val::Nat(C::x_val(&ex.sub(&ey)))));
    agree(v, "sub", &[x, y], &o, if x >= y { Some(x - y) } else { None });
    let o = v.case("xmul", vec![n(x), n(y)], || Out::Ok(Val::Nat(C::x_val(&ex.mul(&ey)))));
    agree(v, "mul", &[x, y], &o, Some(x * y));
    let o = v.case("xdiv", vec![n(x), n(y)], || Out::Ok(Val::Nat(C::x_val(&ex.divq(&ey, &ctx)))));
    agree(v, "divq", &[x, y], &o, inv_ref(y, &q).map(|i| x * i));
    let o = v.case("submod", vec![n(x), n(y)], || Out::Ok(Val::Nat(C::x_val(&ex.sub_mod(&ey, &ctx)))));
    // the canonical representative of x - y, also for lazily reduced operands (a product or a sum of exponents as
    // minuend is what `mul` / `add` hand out); where the implementation panics (subtrahend beyond x + q) nothing is compared
    agree(v, "sub_mod", &[x, y], &o, Some(((x % &q) + &q - (y % &q)) % &q));
}
fn ops_exp1<C: NatCtx>(v: &mut Env<C>, x: &BigUint) {
    let ex = v.x(x);
    let ctx = v.ctx.clone();
    let (p, q, g) = (v.p.clone(), v.q.clone(), v.g.clone());
    let o = v.case("xinv", vec![n(x)], || Out::Ok(Val::Nat(C::x_val(&ex.invq(&ctx)))));
    agree(v, "invq", &[x], &o, inv_ref(x, &q));
    let o = v.case("xmod", vec![n(x)], || Out::Ok(Val::Nat(C::x_val(&ex.modq(&ctx)))));
    agree(v, "modq", &[x], &o, Some(x % &q));
    let o = v.case("gpow", vec![n(x)], || Out::Ok(Val::Nat(C::e_val(&ctx.gmod_pow(&ex)))));
    agree(v, "gmod_pow", &[x], &o, Some(g.modpow(x, &p)));
}

/// the laws of the property evaluated on the implementation alone
fn laws<C: NatCtx>(v: &mut Env<C>, a: &BigUint, b: &BigUint, c: &BigUint, x: &BigUint, y: &BigUint) {
    let ctx = v.ctx.clone();
    let (ea, eb, ec, ex, ey) = (v.e(a), v.e(b), v.e(c), v.x(x), v.x(y));
    let r = v.h.check_nopanic("C15 laws", || {
        let one = C::E::mul_identity();
        let ab = ea.mul(&eb).modp(&ctx);
        let bc = eb.mul(&ec).modp(&ctx);
        let assoc = ab.mul(&ec).modp(&ctx) == ea.mul(&bc).modp(&ctx);
        let comm = ab == eb.mul(&ea).modp(&ctx);
        let ident = ea.mul(&one).modp(&ctx) == ea.modp(&ctx);
        let inv = ea.mul(&ea.invp(&ctx)).modp(&ctx) == one;
        let div = ea.divp(&eb, &ctx).modp(&ctx).mul(&eb).modp(&ctx) == ea.modp(&ctx);
        let xy = ex.add(&ey).modq(&ctx);
        let pow_add = ctx.emod_pow(&ea, &xy)
            == ctx.emod_pow(&ea, &ex).mul(&ctx.emod_pow(&ea, &ey)).modp(&ctx);
        let xym = ex.mul(&ey).modq(&ctx);
        let pow_mul = ctx.emod_pow(&ctx.emod_pow(&ea, &ex), &ey) == ctx.emod_pow(&ea, &xym);
        let gpow = ctx.gmod_pow(&ex) == ctx.emod_pow(ctx.generator(), &ex);
        // exponent ring
        let zero = C::X::add_identity();
        let onex = C::X::mul_identity();
        let xr = ex.modq(&ctx);
        let add_comm = ex.add(&ey).modq(&ctx) == ey.add(&ex).modq(&ctx);
        let add_id = ex.add(&zero).modq(&ctx) == xr;
        let mul_id = ex.mul(&onex).modq(&ctx) == xr;
        let sub = xr.sub_mod(&ey.modq(&ctx), &ctx).add(&ey).modq(&ctx) == xr;
        let self_sub = xr.sub_mod(&xr, &ctx) == zero;
        let xinv = xr == zero || xr.mul(&xr.invq(&ctx)).modq(&ctx) == onex;
        vec![
            ("assoc", assoc), ("comm", comm), ("ident", ident), ("inv", inv), ("div", div),
            ("pow_add", pow_add), ("pow_mul", pow_mul), ("gpow", gpow), ("add_comm", add_comm),
            ("add_id", add_id), ("mul_id", mul_id), ("sub_mod", sub), ("self_sub", self_sub),
            ("xinv", xinv),
        ]
    });
    if let Some(rs) = r {
        for (name, ok) in rs {
            let tok = v.tok.clone();
            v.h.check(ok, || format!("law {} fails on {} a={:x} b={:x} c={:x} x={:x} y={:x}", name, tok, a, b, c, x, y));
        }
    }
}

pub fn run<C: NatCtx>(v: &mut Env<C>) {
    let ctx = v.ctx.clone();
    let (p, q) = (v.p.clone(), v.q.clone());
    v.case("gen", vec![], || Out::Ok(Val::Nat(C::e_val(ctx.generator()))));
    // a^q = 1, g != 1 on the implementation
    {
        let qx = v.x(&q);
        let g = ctx.generator().clone();
        let one = C::E::mul_identity();
        let ok = ctx.emod_pow(&g, &qx) == one && g != one;
        let tok = v.tok.clone();
        v.h.check(ok, || format!("generator order fails on {}", tok));
    }
    if v.small {
        let limit = if v.h.tier == Tier::Quick { 47u32 } else { 107u32 };
        let mem = subgroup(&p, &q);
        let exps: Vec<BigUint> = (0..q.to_u32_digits().first().copied().unwrap_or(0)).map(|i| big(i as u64)).collect();
        if p <= big(limit as u64) {
            v.h.exhaustive_notes.push(format!("{}: all element pairs, all (element, exponent), all exponent pairs", v.tok));
            for a in &mem {
                ops_elem1(v, a);
                for b in &mem {
                    ops_elem(v, a, b);
                }
                for x in &exps {
                    ops_pow(v, a, x);
                }
                // a^q = 1
                let one = C::E::mul_identity();
                let ok = ctx.emod_pow(&v.e(a), &v.x(&q)) == one;
                let tok = v.tok.clone();
                v.h.check(ok, || format!("a^q != 1 on {} a={:x}", tok, a));
            }
            for x in &exps {
                ops_exp1(v, x);
                for y in &exps {
                    ops_exp(v, x, y);
                }
            }
            // unreduced operands
            for a in mem.iter().take(6) {
                for b in mem.iter().rev().take(4) {
                    let ab = a * b;
                    ops_elem1(v, &ab);
                    ops_pow(v, &ab, &big(3));
                    ops_exp1(v, &(&q + a));
                    ops_exp(v, &(a * b), &(b + &q));
                }
            }
            // laws, exhaustively over (a,b,c) for tiny groups, sampled otherwise
            let tiny = mem.len() <= 11;
            for (i, a) in mem.iter().enumerate() {
                for (j, b) in mem.iter().enumerate() {
                    for (k, c) in mem.iter().enumerate() {
                        if tiny || (i + 2 * j + 3 * k) % 29 == 0 {
                            let x = &exps[(i + j) % exps.len()];
                            let y = &exps[(j + k + 1) % exps.len()];
                            laws(v, a, b, c, x, y);
                        }
                    }
                }
            }
            for x in &exps {
                for y in &exps {
                    laws(v, &mem[1 % mem.len()], &mem[0], &mem[mem.len() - 1], x, y);
                }
            }
        } else {
            // sampled on the larger small sets
            for _ in 0..40 {
                let (a, b) = (v.rnd_member(), v.rnd_member());
                let (x, y) = (v.rnd_exp(), v.rnd_exp());
                ops_elem(v, &a, &b);
                ops_elem1(v, &a);
                ops_pow(v, &a, &x);
                ops_exp(v, &x, &y);
                ops_exp1(v, &x);
                let c = v.rnd_member();
                laws(v, &a, &b, &c, &x, &y);
            }
        }
    } else {
        let nr = if v.h.tier == Tier::Quick { 6 } else { 60 };
        let mem = v.members(nr);
        let exps = v.exps(nr);
        for (i, a) in mem.iter().enumerate() {
            ops_elem1(v, a);
            let b = &mem[(i * 7 + 3) % mem.len()];
            ops_elem(v, a, b);
            let x = &exps[(i * 5 + 1) % exps.len()];
            ops_pow(v, a, x);
            ops_pow(v, a, &q);
            let c = &mem[(i * 3 + 1) % mem.len()];
            let y = &exps[(i * 11 + 2) % exps.len()];
            laws(v, a, b, c, x, y);
        }
        for (i, x) in exps.iter().enumerate() {
            ops_exp1(v, x);
            let y = &exps[(i * 3 + 2) % exps.len()];
            ops_exp(v, x, y);
            ops_exp(v, y, x);
            ops_exp(v, x, x);
        }
        // operands with a special machine representation (zero limbs, single bits, every byte length):
        // squares as elements (members), the values themselves as exponents and as unreduced operands
        let quick = v.h.tier == Tier::Quick;
        let sv = crate::ctxs::structured_values(&p, &mut v.h.rng, 1, if quick { 9 } else { 2 });
        for (i, s) in sv.iter().enumerate() {
            if quick && i % 3 != 0 {
                continue;
            }
            let a = (s * s) % &p;
            let t = &sv[(i * 7 + 1) % sv.len()];
            if !a.is_zero() {
                ops_elem1(v, &a);
                ops_elem(v, &a, &mem[i % mem.len()]);
                ops_elem(v, &mem[i % mem.len()], &a);
                ops_pow(v, &a, &(t % &q));
                ops_pow(v, &mem[i % mem.len()], &(s % &q));
            }
            ops_elem1(v, s); // unreduced / non-member operand: modp and the inverse are still defined
            ops_exp1(v, &(s % &q));
            ops_exp(v, &(s % &q), &(t % &q));
            ops_exp1(v, s);
        }
        // unreduced operands where the protocol produces them: products of two members
        let ab = &mem[1] * &mem[2];
        ops_elem1(v, &ab);
        let xy = &exps[2] * &exps[3] + &q;
        ops_exp1(v, &xy);
        ops_exp(v, &xy, &exps[1]);
    }
    // encoded plaintexts are members too: encode then use as operand
    for m in [0u64, 1, 2] {
        let mv = big(m);
        if mv < &q - 1u32 {
            let pt = C::p_raw(&mv);
            let r = v.case("encode", vec![n(&mv)], || match ctx.encode(&pt) {
                Ok(e) => Out::Ok(Val::Nat(C::e_val(&e))),
                Err(_) => Out::Err,
            });
            if let Out::Ok(Val::Nat(e)) = r {
                ops_elem1(v, &e);
                ops_pow(v, &e, &big(2));
            }
        }
    }
    // exp_from_u64 and hash_to_exp
    for u in [0u64, 1, 2, 255, 256, u64::MAX] {
        v.case("xfromu64", vec![nu(u)], || Out::Ok(Val::Nat(C::x_val(&ctx.exp_from_u64(u)))));
    }
    // hash_to_exp on message lengths across the SHA-512 padding boundaries (111/112, 127/128, 239/240)
    if (v.small && v.p == big(23)) || v.p.bits() == 130 {
        let lens: Vec<usize> = if v.h.tier == Tier::Quick { vec![0, 1, 55, 56, 63, 64, 110, 111, 112, 113, 127, 128, 129, 238, 239, 240, 241, 255, 256, 299] } else { (0..300).collect() };
        for len in lens {
            let bs = v.h.rng.bytes(len);
            let bs2 = bs.clone();
            let out = v.case("h2x", vec![b(&bs)], || Out::Ok(Val::Nat(C::x_val(&ctx.hash_to_exp(&bs2)))));
            let digest = strand::util::hash(&bs);
            let want = (if C::kind() == 'B' { BigUint::from_bytes_le(&digest) } else { BigUint::from_bytes_be(&digest) }) % &q;
            let tok = v.tok.clone();
            v.h.check(out == Out::Ok(n(&want)), || format!("hash_to_exp of a {}-byte message is not the whole SHA-512 digest reduced mod q on {}", len, tok));
        }
    }
    // digests with a rare SHAPE: leading / trailing zero bytes (the most significant bytes of the integer in one of
    // the two byte orders), found by a short search at run time; hash_to_exp must still be digest mod q
    if (v.small && v.p == big(23)) || v.p.bits() == 130 || v.p.bits() > 2000 {
        let want_zero = if v.h.tier == Tier::Quick { 2 } else { 3 };
        let mut found_lead = None;
        let mut found_trail = None;
        let mut ctr: u64 = v.h.rng.below_u(1 << 40);
        while found_lead.is_none() || found_trail.is_none() {
            ctr += 1;
            let msg = [b"rare-digest-".to_vec(), ctr.to_le_bytes().to_vec()].concat();
            let dg = strand::util::hash(&msg);
            if found_lead.is_none() && dg[..want_zero].iter().all(|b| *b == 0) {
                found_lead = Some(msg.clone());
            }
            if found_trail.is_none() && dg[64 - want_zero..].iter().all(|b| *b == 0) {
                found_trail = Some(msg);
            }
        }
        for msg in [found_lead.unwrap(), found_trail.unwrap()] {
            let m2 = msg.clone();
            let out = v.case("h2x", vec![b(&msg)], || Out::Ok(Val::Nat(C::x_val(&ctx.hash_to_exp(&m2)))));
            let digest = strand::util::hash(&msg);
            let want = (if C::kind() == 'B' { BigUint::from_bytes_le(&digest) } else { BigUint::from_bytes_be(&digest) }) % &q;
            let tok = v.tok.clone();
            v.h.check(out == Out::Ok(n(&want)), || format!("hash_to_exp of a message whose digest has {} zero bytes at one end is not the digest reduced mod q on {}", want_zero, tok));
            let he = ctx.hash_to_exp(&msg);
            let hv = C::x_val(&he);
            v.h.check(hv < q, || format!("hash_to_exp is not reduced on {}", tok));
        }
    }
    for i in 0..4 {
        let bs = v.h.rng.bytes(i * 37);
        let bs2 = bs.clone();
        v.case("h2x", vec![b(&bs)], || Out::Ok(Val::Nat(C::x_val(&ctx.hash_to_exp(&bs2)))));
    }
    let _ = BigUint::zero().is_one();
}
