//! C01: ElGamal round trips.
use crate::core::*;
use crate::ctxs::NatCtx;
use crate::env::Env;
use crate::val::*;
use num_bigint::BigUint;
use strand::context::Element;
use strand::elgamal::{Ciphertext, PrivateKey, PublicKey};
use strand::serialization::{StrandDeserialize, StrandSerialize};
use strand::zkp::Zkp;

fn one_triple<C: NatCtx>(v: &mut Env<C>, sk: &BigUint, m: &BigUint, r: &BigUint, full: bool) {
    let ctx = v.ctx.clone();
    let skx = v.x(sk);
    let key = PrivateKey::from(&skx, &ctx);
    let pk: PublicKey<C> = key.get_pk();
    let pkv = C::e_val(key.pk_element());
    // keygen
    if full {
        let k2 = PrivateKey::from(&skx, &ctx);
        v.case("keygen", vec![n(sk)], || Out::Ok(Val::Nat(C::e_val(k2.pk_element()))));
    }
    // encode
    let pt = C::p_raw(m);
    let enc = match ctx.encode(&pt) {
        Ok(e) => e,
        Err(_) => {
            let tok = v.tok.clone();
            v.h.check(false, || format!("encode refused plaintext {:x} on {}", m, tok));
            return;
        }
    };
    let encv = C::e_val(&enc);
    let rx = v.x(r);
    // encrypt with caller randomness (twice: determinism)
    let c1 = pk.encrypt_with_randomness(&enc, &rx);
    let c2 = pk.encrypt_with_randomness(&enc, &rx);
    let c1c = c1.clone();
    let vc = v.vct(&c1);
    v.case("enc", vec![n(&pkv), n(&encv), n(r)], || Out::Ok(l(vec![Val::Nat(C::e_val(&c1c.mhr)), Val::Nat(C::e_val(&c1c.gr))])));
    let tok = v.tok.clone();
    v.h.check(c1 == c2, || format!("encrypt_with_randomness not deterministic on {} sk={:x} m={:x} r={:x}", tok, sk, m, r));
    // decrypt
    let d = key.decrypt(&c1);
    let dv = C::e_val(&d);
    v.case("dec", vec![n(sk), vc.clone()], || Out::Ok(Val::Nat(dv.clone())));
    let back = ctx.decode(&d);
    v.h.check(C::p_val(&back) == *m, || format!("round trip fails on {} sk={:x} m={:x} r={:x}: got {:x}", tok, sk, m, r, C::p_val(&back)));
    if full {
        v.case("decode", vec![n(&dv)], || Out::Ok(Val::Nat(C::p_val(&ctx.decode(&d)))));
        // through the wire
        let bytes = c1.strand_serialize().unwrap();
        let bytes2 = c1.strand_serialize().unwrap();
        v.h.check(bytes == bytes2, || "ciphertext serialisation not deterministic".to_string());
        let cb = c1.clone();
        v.case("ser_ct", vec![vc.clone()], || Out::Ok(b(&cb.strand_serialize().unwrap())));
        let back_c = Ciphertext::<C>::strand_deserialize(&bytes);
        let skb = key.strand_serialize().unwrap();
        let back_sk = PrivateKey::<C>::strand_deserialize(&skb);
        let pkb = pk.strand_serialize().unwrap();
        let back_pk = PublicKey::<C>::strand_deserialize(&pkb);
        match (back_c, back_sk, back_pk) {
            (Ok(c), Ok(k), Ok(pk2)) => {
                let d2 = k.decrypt(&c);
                let ok = C::p_val(&ctx.decode(&d2)) == *m;
                v.h.check(ok, || format!("wire round trip fails on {} sk={:x} m={:x} r={:x}", tok, sk, m, r));
                let c3 = pk2.encrypt_with_randomness(&enc, &rx);
                v.h.check(c3 == c1, || format!("deserialised pk encrypts differently on {}", tok));
            }
            _ => v.h.check(false, || format!("wire decode fails on {} sk={:x} m={:x} r={:x}", tok, sk, m, r)),
        }
        v.case("des_ct", vec![b(&bytes)], || match Ciphertext::<C>::strand_deserialize(&bytes) {
            Ok(c) => Out::Ok(l(vec![Val::Nat(C::e_val(&c.mhr)), Val::Nat(C::e_val(&c.gr))])),
            Err(_) => Out::Err,
        });
        v.case("des_sk", vec![b(&skb)], || match PrivateKey::<C>::strand_deserialize(&skb) {
            Ok(k) => Out::Ok(l(vec![
                Val::Nat(C::x_val(strand::verif_hooks::sk_value(&k))),
                Val::Nat(C::e_val(k.pk_element())),
            ])),
            Err(_) => Out::Err,
        });
        // encrypt() with an injected draw
        load_tape(&[r.clone()]);
        let c4 = pk.encrypt(&enc);
        strand::verif_hooks::load_exp_tape(vec![]);
        v.h.check(c4 == c1, || format!("encrypt with injected draw differs on {}", tok));
        // exponential encryption
        load_tape(&[r.clone()]);
        let ce = pk.encrypt_exponential(&v.x(m));
        strand::verif_hooks::load_exp_tape(vec![]);
        let de = key.decrypt(&ce);
        v.h.check(de == ctx.gmod_pow(&v.x(m)), || format!("exponential round trip fails on {} sk={:x} m={:x} r={:x}", tok, sk, m, r));
        // encrypt_and_pok
        let label = v.label((sk.bits() + m.bits()) as usize);
        let nonce = v.rnd_exp();
        load_tape(&[r.clone(), nonce.clone()]);
        let lab = label.clone();
        let encc = enc.clone();
        let pkc = PublicKey::from_element(key.pk_element(), &ctx);
        let mut got = None;
        v.case("enc_pok", vec![n(&pkv), n(&encv), b(&label), l(vec![n(r), n(&nonce)])], || {
            match pkc.encrypt_and_pok(&encc, &lab) {
                Ok((c, pf, rr)) => {
                    let out = l(vec![
                        l(vec![Val::Nat(C::e_val(&c.mhr)), Val::Nat(C::e_val(&c.gr))]),
                        l(vec![Val::Nat(C::e_val(&pf.commitment)), Val::Nat(C::x_val(&pf.challenge)), Val::Nat(C::x_val(&pf.response))]),
                        Val::Nat(C::x_val(&rr)),
                    ]);
                    got = Some((c, pf, rr));
                    Out::Ok(out)
                }
                Err(_) => Out::Err,
            }
        });
        if let Some((c, pf, rr)) = got {
            let zkp = Zkp::new(&ctx);
            let okp = zkp.encryption_popk_verify(&c.mhr, &c.gr, &pf, &label).unwrap_or(false);
            let okd = C::p_val(&ctx.decode(&key.decrypt(&c))) == *m;
            v.h.check(okp && okd && C::x_val(&rr) == *r, || format!("encrypt_and_pok fails on {} sk={:x} m={:x} r={:x} (proof {} dec {})", tok, sk, m, r, okp, okd));
        }
        // decrypt_and_prove
        let nonce2 = v.rnd_exp();
        load_tape(&[nonce2.clone()]);
        let lab = label.clone();
        let c1d = c1.clone();
        let key2 = PrivateKey::from(&skx, &ctx);
        v.case("dec_prove", vec![n(sk), n(&pkv), vc.clone(), b(&label), l(vec![n(&nonce2)])], || {
            match key2.decrypt_and_prove(&c1d, &lab) {
                Ok((d, pf)) => Out::Ok(l(vec![
                    Val::Nat(C::e_val(&d)),
                    l(vec![Val::Nat(C::e_val(&pf.commitment1)), Val::Nat(C::e_val(&pf.commitment2)), Val::Nat(C::x_val(&pf.challenge)), Val::Nat(C::x_val(&pf.response))]),
                ])),
                Err(_) => Out::Err,
            }
        });
        // exponent transport
        load_tape(&[r.clone()]);
        let xm = v.x(m);
        let pk3 = PublicKey::from_element(key.pk_element(), &ctx);
        let mut bytes_x = None;
        v.case("enc_x", vec![n(m), n(&pkv), l(vec![n(r)])], || match ctx.encrypt_exp(&xm, pk3) {
            Ok(bs) => {
                bytes_x = Some(bs.clone());
                Out::Ok(b(&bs))
            }
            Err(_) => Out::Err,
        });
        if let Some(bs) = bytes_x {
            let key3 = PrivateKey::from(&skx, &ctx);
            let bs2 = bs.clone();
            let r2 = v.case("dec_x", vec![b(&bs), n(sk)], || match ctx.decrypt_exp(&bs2, key3) {
                Ok(x) => Out::Ok(Val::Nat(C::x_val(&x))),
                Err(_) => Out::Err,
            });
            v.h.check(r2 == Out::Ok(n(m)), || format!("exponent transport round trip fails on {} sk={:x} x={:x} r={:x}", tok, sk, m, r));
        }
    }
}

fn hom<C: NatCtx>(v: &mut Env<C>, sk: &BigUint, m1: &BigUint, m2: &BigUint, r1: &BigUint, r2: &BigUint) {
    // component-wise product decrypts to the product (members m1, m2)
    let ctx = v.ctx.clone();
    let key = PrivateKey::from(&v.x(sk), &ctx);
    let pk = key.get_pk();
    let (e1, e2) = (v.e(m1), v.e(m2));
    let c1 = pk.encrypt_with_randomness(&e1, &v.x(r1));
    let c2 = pk.encrypt_with_randomness(&e2, &v.x(r2));
    let prod = Ciphertext::<C> { mhr: c1.mhr.mul(&c2.mhr).modp(&ctx), gr: c1.gr.mul(&c2.gr).modp(&ctx) };
    let vp = v.vct(&prod);
    let d = key.decrypt(&prod);
    let dv = C::e_val(&d);
    v.case("dec", vec![n(sk), vp], || Out::Ok(Val::Nat(dv.clone())));
    let expect = e1.mul(&e2).modp(&ctx);
    let tok = v.tok.clone();
    v.h.check(d == expect, || format!("homomorphism fails on {} sk={:x} m1={:x} m2={:x} r1={:x} r2={:x}", tok, sk, m1, m2, r1, r2));
    // unreduced component products (the raw Element::mul). malachite documents a reduced-base
    // precondition for mod_pow (multi-limb debug builds assert it): there a panic is tolerated
    // and counted, a wrong answer is not.
    let raw = Ciphertext::<C> { mhr: c1.mhr.mul(&c2.mhr), gr: c1.gr.mul(&c2.gr) };
    match std::panic::catch_unwind(std::panic::AssertUnwindSafe(|| key.decrypt(&raw))) {
        Ok(d2) => v.h.check(d2 == expect, || format!("homomorphism (unreduced product) fails on {} sk={:x} m1={:x} m2={:x}", tok, sk, m1, m2)),
        Err(_) => {
            v.h.stat("unreduced_product_panics");
            v.h.check(C::kind() == 'M', || format!("decrypt of unreduced product panics on {} sk={:x} m1={:x} m2={:x}", tok, sk, m1, m2));
        }
    }
}

pub fn run<C: NatCtx>(v: &mut Env<C>) {
    let q = v.q.clone();
    if v.small {
        let limit = if v.h.tier == Tier::Quick { 47u64 } else { 167u64 };
        if v.p <= big(limit) {
            let qn = q.to_u64_digits()[0];
            v.h.exhaustive_notes.push(format!("{}: all (sk, m, r) in Z_q x [0,q-2] x Z_q", v.tok));
            for sk in 0..qn {
                for m in 0..qn - 1 {
                    for r in 0..qn {
                        let full = (sk + 3 * m + 7 * r) % 23 == 0 || qn <= 5;
                        one_triple(v, &big(sk), &big(m), &big(r), full);
                    }
                }
            }
            let mem = subgroup(&v.p, &q);
            for (i, m1) in mem.iter().enumerate() {
                for (j, m2) in mem.iter().enumerate() {
                    hom(v, &big((i as u64 * 3 + 1) % qn), m1, m2, &big(i as u64 % qn), &big(j as u64 % qn));
                }
            }
            // plaintexts outside the space: transport reports an error
            for x in [qn - 1, qn] {
                let ctx = v.ctx.clone();
                let key = PrivateKey::from(&v.x(&big(1)), &ctx);
                let pkv = C::e_val(key.pk_element());
                let xx = v.x(&big(x));
                // a refused plaintext returns before the draw: no tape is loaded, so an
                // implementation that does not refuse draws OS randomness and differs
                let r = v.case("enc_x", vec![nu(x), n(&pkv), l(vec![nu(1)])], || match ctx.encrypt_exp(&xx, key.get_pk()) {
                    Ok(bs) => Out::Ok(b(&bs)),
                    Err(_) => Out::Err,
                });
                strand::verif_hooks::load_exp_tape(vec![]);
                // x = q-1 is refused; x = q is not an exponent at all (outside the property)
                if x == qn - 1 {
                    let tok = v.tok.clone();
                    v.h.check(r == Out::Err, || format!("transport of q-1 not refused on {}", tok));
                }
            }
            return;
        }
    }
    let nr = match (v.small, v.h.tier) {
        (true, _) => 60,
        (false, Tier::Quick) => 4,
        (false, Tier::Thorough) => 40,
    };
    let sks = v.exps(nr);
    let rs = v.exps(nr);
    let mut ms = vec![big(0), big(1), &q - 2u32, &q - 3u32];
    for _ in 0..nr {
        ms.push(v.h.rng.below(&(&q - 1u32)));
    }
    for (i, m) in ms.iter().enumerate() {
        let sk = &sks[(i * 3 + 1) % sks.len()];
        let r = &rs[(i * 5 + 2) % rs.len()];
        one_triple(v, sk, m, r, true);
        // boundary randomness with every sampled message
        for rb in rs.iter().take(3) {
            one_triple(v, sk, m, rb, false);
        }
    }
    let mem = v.members(3);
    for i in 0..mem.len() {
        let (m1, m2) = (&mem[i], &mem[(i + 1) % mem.len()]);
        hom(v, &sks[i % sks.len()], m1, m2, &rs[i % rs.len()], &rs[(i + 2) % rs.len()]);
    }
}
