//! C18: samplers from RNG bytes (byte tape) vs the model; ranges, freshness, draw counts,
//! uniformity of the mix permutation (statistics = tests, reported as such).
use crate::core::*;
use crate::ctxs::NatCtx;
use crate::env::Env;
use crate::p_shuffle;
use crate::val::*;
use num_bigint::BigUint;
use std::sync::atomic::Ordering;
use strand::context::Ctx;
use strand::elgamal::PrivateKey;
use strand::shuffler::Shuffler;
use strand::verif_hooks as vh;
use strand::zkp::Zkp;

fn with_byte_tape<T>(bytes: &[u8], f: impl FnOnce() -> T) -> (Option<T>, usize) {
    vh::load_byte_tape(Some(bytes.to_vec()));
    let r = std::panic::catch_unwind(std::panic::AssertUnwindSafe(f)).ok();
    let left = vh::byte_tape_len().unwrap_or(0);
    vh::load_byte_tape(None);
    (r, bytes.len() - left)
}

fn draws<T>(f: impl FnOnce() -> T) -> (T, u64) {
    let before = vh::EXP_DRAWS.load(Ordering::SeqCst);
    let r = f();
    (r, vh::EXP_DRAWS.load(Ordering::SeqCst) - before)
}

/// first pair of positions (i < j) at which the same `w`-byte window occurs in `stream`
pub fn repeated_window(stream: &[u8], w: usize) -> Option<(usize, usize)> {
    let mut seen: std::collections::HashMap<&[u8], usize> = std::collections::HashMap::new();
    if stream.len() < w {
        return None;
    }
    for j in 0..=(stream.len() - w) {
        if let Some(&i) = seen.get(&stream[j..j + w]) {
            return Some((i, j));
        }
        seen.insert(&stream[j..j + w], j);
    }
    None
}

/// the RNG front-end itself under mixed request sizes (OS randomness, no tape): no 12-byte window of the
/// concatenated output may occur twice (a statistical TEST with false-alarm probability < 2^-60)
fn rng_stream_fresh(h: &mut Harness) {
    use rand::RngCore;
    let quick = h.tier == Tier::Quick;
    let mut rng = strand::rnd::StrandRng;
    for sizes in [&[30usize, 64, 4, 12, 7, 33, 1, 256][..], &[30][..], &[12][..], &[4, 8, 32, 64][..], &[1000, 100][..], &[3000, 5][..]] {
        let mut stream: Vec<u8> = vec![];
        let mut cuts = vec![];
        let mut i = 0;
        while stream.len() < (if quick { 40_000 } else { 400_000 }) {
            let mut buf = vec![0u8; sizes[i % sizes.len()]];
            match i % 3 {
                0 => rng.fill_bytes(&mut buf),
                1 => rng.try_fill_bytes(&mut buf).unwrap(),
                _ => {
                    if buf.len() == 4 { buf.copy_from_slice(&rng.next_u32().to_le_bytes()) } else if buf.len() == 8 { buf.copy_from_slice(&rng.next_u64().to_le_bytes()) } else { rng.fill_bytes(&mut buf) }
                }
            }
            cuts.push(stream.len());
            stream.extend(buf);
            i += 1;
        }
        match repeated_window(&stream, 12) {
            Some((a, bb)) => {
                let req = |pos: usize| cuts.partition_point(|c| *c <= pos) - 1;
                h.check(false, || format!("StrandRng hands out the same bytes twice: with request sizes {:?}, bytes {}..{} (request #{}) repeat bytes {}..{} (request #{})", sizes, bb, bb + 12, req(bb), a, a + 12, req(a)))
            }
            None => h.check(true, String::new),
        }
    }
}

/// several threads draw at the same time: no 12-byte window may occur in two threads' outputs (or twice in one)
fn rng_threads_fresh(h: &mut Harness) {
    use rand::RngCore;
    let handles: Vec<std::thread::JoinHandle<Vec<u8>>> = (0..6)
        .map(|k| {
            std::thread::spawn(move || {
                let mut rng = strand::rnd::StrandRng;
                let mut out = vec![];
                for i in 0..200 {
                    let mut buf = vec![0u8; [32usize, 64, 30, 8][(i + k) % 4]];
                    rng.fill_bytes(&mut buf);
                    out.extend(buf);
                }
                out
            })
        })
        .collect();
    let outs: Vec<Vec<u8>> = handles.into_iter().map(|t| t.join().unwrap_or_default()).collect();
    let mut all = vec![];
    let mut starts = vec![];
    for o in &outs {
        starts.push(all.len());
        all.extend(o);
        all.extend([0u8; 0]);
    }
    match repeated_window(&all, 12) {
        Some((a, bb)) => {
            let th = |pos: usize| starts.partition_point(|s| *s <= pos) - 1;
            h.check(false, || format!("StrandRng hands out the same bytes on different threads: bytes at offset {} of thread {} repeat bytes at offset {} of thread {}", bb - starts[th(bb)], th(bb), a - starts[th(a)], th(a)))
        }
        None => h.check(outs.iter().all(|o| !o.is_empty()), || "a sampling thread panicked".to_string()),
    }
}

/// after fork() parent and child must not hand out the same random bytes (a user-space generator that is not
/// re-seeded on fork would).  Unix only; the child draws, writes 64 bytes into a pipe and exits at once.
#[cfg(unix)]
fn rng_fork_fresh(h: &mut Harness) {
    use rand::RngCore;
    extern "C" {
        fn fork() -> i32;
        fn pipe(fds: *mut i32) -> i32;
        fn read(fd: i32, buf: *mut u8, n: usize) -> isize;
        fn write(fd: i32, buf: *const u8, n: usize) -> isize;
        fn close(fd: i32) -> i32;
        fn waitpid(pid: i32, status: *mut i32, options: i32) -> i32;
        fn _exit(code: i32) -> !;
    }
    let mut rng = strand::rnd::StrandRng;
    let mut warm = [0u8; 16];
    rng.fill_bytes(&mut warm); // the generator has been used before the fork
    let mut fds = [0i32; 2];
    unsafe {
        if pipe(fds.as_mut_ptr()) != 0 {
            return;
        }
        let pid = fork();
        if pid == 0 {
            let mut b = [0u8; 64];
            let mut r = strand::rnd::StrandRng;
            r.fill_bytes(&mut b);
            let _ = write(fds[1], b.as_ptr(), 64);
            _exit(0);
        }
        close(fds[1]);
        if pid < 0 {
            close(fds[0]);
            return;
        }
        let mut mine = [0u8; 64];
        rng.fill_bytes(&mut mine);
        let mut theirs = [0u8; 64];
        let mut got = 0usize;
        while got < 64 {
            let k = read(fds[0], theirs.as_mut_ptr().add(got), 64 - got);
            if k <= 0 {
                break;
            }
            got += k as usize;
        }
        close(fds[0]);
        let mut st = 0i32;
        waitpid(pid, &mut st, 0);
        if got == 64 {
            let both = [mine.to_vec(), theirs.to_vec()].concat();
            h.check(repeated_window(&both, 12).is_none(), || format!("after fork() parent and child draw the same random bytes: parent {:02x?}.. child {:02x?}..", &mine[..12], &theirs[..12]));
        }
    }
}
#[cfg(not(unix))]
fn rng_fork_fresh(_h: &mut Harness) {}

/// the mix permutation at a size where "local" shuffling would show: N = 4096 / 20000 positions, 8 x 8 table of
/// (bucket of the source, bucket of the destination); under a uniform permutation every cell is near N/64
/// (hypergeometric, sd < sqrt(N/64)); a block-wise or windowed shuffle empties most cells.  Statistical TEST,
/// bound at 12 sd (false-alarm probability far below 1e-12).
pub fn permutation_mixes(h: &mut Harness, what: &str) {
    for nn in [4096usize, 20000] {
        let perm = strand::shuffler::verif::gen_permutation(nn);
        let mut sorted = perm.clone();
        sorted.sort_unstable();
        h.check(sorted.iter().enumerate().all(|(i, x)| i == *x), || format!("gen_permutation({}) is not a permutation ({})", nn, what));
        let mut table = [[0f64; 8]; 8];
        for (k, &src) in perm.iter().enumerate() {
            table[k * 8 / nn][src * 8 / nn] += 1.0;
        }
        let exp = nn as f64 / 64.0;
        let worst = table.iter().flatten().map(|c| (c - exp).abs() / exp.sqrt()).fold(0.0, f64::max);
        h.stat_n(&format!("perm_mix_N{}_worst_sd_x100", nn), (worst * 100.0) as u64);
        h.check(worst < 12.0, || format!("gen_permutation({}) does not mix ({}): some (destination eighth, source eighth) cell deviates {:.1} standard deviations from N/64", nn, what, worst));
    }
}

pub fn run<C: NatCtx>(v: &mut Env<C>) {
    if std::env::var("C18_STATS_ONLY").is_ok() {
        // the rayon build of the harness (tapes do not reach worker threads, so only the tape-free evaluators run):
        // freshness of the RNG front-end and uniformity / mixing of the permutation sampler in THAT build
        if v.small && v.p == big(23) && C::kind() == 'B' {
            rng_stream_fresh(&mut v.h);
            rng_threads_fresh(&mut v.h);
            permutation_mixes(&mut v.h, "rayon build");
            for nn in [3usize, 4, 5] {
                let mut counts = std::collections::HashMap::new();
                let per_cell = 300;
                let perms = p_shuffle::permutations(nn);
                for _ in 0..(perms.len() * per_cell) {
                    *counts.entry(strand::shuffler::verif::gen_permutation(nn)).or_insert(0usize) += 1;
                }
                let exp = per_cell as f64;
                let chi: f64 = perms.iter().map(|pm| { let o = *counts.get(pm).unwrap_or(&0) as f64; (o - exp) * (o - exp) / exp }).sum();
                let df = (perms.len() - 1) as f64;
                let thr = df * (1.0 - 2.0 / (9.0 * df) + 7.5 * (2.0 / (9.0 * df)).sqrt()).powi(3);
                v.h.check(chi < thr && counts.len() == perms.len(), || format!("gen_permutation({}) is not uniform in the rayon build: chi2 = {:.1} > {:.1}", nn, chi, thr));
            }
        }
        return;
    }
    if v.small && v.p == big(23) && C::kind() == 'B' {
        rng_stream_fresh(&mut v.h);
        rng_threads_fresh(&mut v.h);
        rng_fork_fresh(&mut v.h);
        permutation_mixes(&mut v.h, "sequential build");
    }
    if !v.small && v.p.bits() > 100 {
        // exponents drawn on different threads never coincide (two provers on two threads never share a nonce)
        let ctx = v.ctx.clone();
        let hs: Vec<std::thread::JoinHandle<Vec<BigUint>>> = (0..4).map(|_| { let c = ctx.clone(); std::thread::spawn(move || (0..8).map(|_| C::x_val(&c.rnd_exp())).collect()) }).collect();
        let mut all: Vec<BigUint> = hs.into_iter().flat_map(|t| t.join().unwrap_or_default()).collect();
        let n0 = all.len();
        all.sort();
        all.dedup();
        let tok = v.tok.clone();
        v.h.check(n0 == 32 && all.len() == 32, || format!("random exponents drawn on four threads: {} drawn, {} distinct on {}", n0, all.len(), tok));
    }
    let quick = v.h.tier == Tier::Quick;
    let (p, q, g) = (v.p.clone(), v.q.clone(), v.g.clone());
    let ctx = v.ctx.clone();
    let tok = v.tok.clone();
    let bigint = C::kind() == 'B';
    // ---- byte-level tapes: the sampler itself against the model (num-bigint only)
    if bigint {
        let reps = if v.small { if quick { 60 } else { 600 } } else if quick { 6 } else { 60 };
        for i in 0..reps {
            let need = 4 * ((q.bits() as usize + 31) / 32);
            let mut tape = v.h.rng.bytes(need * 40);
            // force boundary patterns now and then: all ones (rejected for most q), all zeros
            if i % 7 == 1 {
                for b in tape.iter_mut().take(need) { *b = 0xff; }
            }
            if i % 7 == 2 {
                for b in tape.iter_mut().take(need) { *b = 0; }
            }
            let c2 = ctx.clone();
            let tp = tape.clone();
            v.case("rnd_exp", vec![b(&tape)], || {
                let (r, used) = with_byte_tape(&tp, || C::x_val(&c2.rnd_exp()));
                match r { Some(x) => Out::Ok(l(vec![Val::Nat(x), nu(used as u64)])), None => Out::Panic }
            });
            let c2 = ctx.clone();
            let tp = tape.clone();
            v.case("rnd_pt", vec![b(&tape)], || {
                let (r, used) = with_byte_tape(&tp, || C::p_val(&c2.rnd_plaintext()));
                match r { Some(x) => Out::Ok(l(vec![Val::Nat(x), nu(used as u64)])), None => Out::Panic }
            });
            let c2 = ctx.clone();
            let tp = tape.clone();
            v.case("rnd_elem", vec![b(&tape)], || {
                let (r, used) = with_byte_tape(&tp, || C::e_val(&c2.rnd()));
                match r { Some(x) => Out::Ok(l(vec![Val::Nat(x), nu(used as u64)])), None => Out::Panic }
            });
        }
    }
    // key generation and util::random_ciphertexts from RNG bytes (num-bigint, sequential build)
    if bigint {
        let need = 4 * ((q.bits() as usize + 31) / 32);
        for i in 0..(if v.small { if quick { 12 } else { 120 } } else if quick { 3 } else { 20 }) {
            let tape = v.h.rng.bytes(need * 40);
            let (c2, tp) = (ctx.clone(), tape.clone());
            let out = v.case("sk_gen", vec![b(&tape)], || {
                let (r, used) = with_byte_tape(&tp, || {
                    let k = PrivateKey::gen(&c2);
                    (C::x_val(vh::sk_value(&k)), C::e_val(k.pk_element()))
                });
                match r { Some((x, y)) => Out::Ok(l(vec![Val::Nat(x), Val::Nat(y), nu(used as u64)])), None => Out::Panic }
            });
            if let Out::Ok(Val::List(items)) = &out {
                if let (Val::Nat(x), Val::Nat(y)) = (&items[0], &items[1]) {
                    v.h.check(*x < q && *y == g.modpow(x, &p), || format!("PrivateKey::gen returned sk = {:x}, pk = {:x}: not a key pair on {}", x, y, tok));
                }
            } else {
                v.h.check(false, || format!("PrivateKey::gen panicked on {}", tok));
            }
            #[cfg(not(feature = "rayon"))]
            {
                let nn = i % 4;
                let tape = v.h.rng.bytes(need * 40 * (2 * nn + 1));
                let (c2, tp) = (ctx.clone(), tape.clone());
                v.case("random_cts", vec![nu(nn as u64), b(&tape)], || {
                    let (r, used) = with_byte_tape(&tp, || strand::util::random_ciphertexts(nn, &c2));
                    match r { Some(cs) => Out::Ok(l(vec![p_shuffle::vcts(&cs), nu(used as u64)])), None => Out::Panic }
                });
            }
        }
    }
    // gen_permutation from RNG bytes (context-independent; run once per kind on the first small set)
    if v.small && p == big(23) {
        for nn in [0usize, 1, 2, 3, 5, 8, 33, 200] {
            for _ in 0..(if quick { 4 } else { 40 }) {
                let tape = v.h.rng.bytes(4 * nn * 8 + 16);
                let tp = tape.clone();
                v.case("perm", vec![nu(nn as u64), b(&tape)], || {
                    let (r, used) = with_byte_tape(&tp, || strand::shuffler::verif::gen_permutation(nn));
                    match r { Some(x) => Out::Ok(l(vec![p_shuffle::vperm(&x), nu(used as u64)])), None => Out::Panic }
                });
            }
        }
        // gen_shuffle end to end: permutation from the RNG byte tape, exponents from the value tape
        for nn in [0usize, 1, 2, 5, 12] {
            let sk = v.rnd_exp();
            let s = p_shuffle::setup(v, &sk, nn, b"gs");
            let cts = p_shuffle::make_cts(v, &s, nn, 1);
            let rs: Vec<BigUint> = (0..nn).map(|_| v.rnd_exp()).collect();
            let bytes = v.h.rng.bytes(4 * nn * 8 + 16);
            let ctx2 = ctx.clone();
            let (ctsc, rsc, bc) = (cts.clone(), rs.clone(), bytes.clone());
            v.case("gen_shuffle", vec![n(&s.pkv), p_shuffle::vcts(&cts), b(&bytes), p_shuffle::vnats(&rs)], || {
                let sh = Shuffler::new(&s.pk, &s.gens, &ctx2);
                load_tape(&rsc);
                let (r, used) = with_byte_tape(&bc, || sh.gen_shuffle(&ctsc));
                match r {
                    Some((outs, rso, perm)) => Out::Ok(l(vec![p_shuffle::vcts(&outs), l(rso.iter().map(|x| Val::Nat(C::x_val(x))).collect()), p_shuffle::vperm(&perm), nu(used as u64)])),
                    None => Out::Panic,
                }
            });
        }
        // chi-square over all N! permutations (a statistical TEST of the implementation's RNG use)
        for nn in [3usize, 4, 5] {
            let perms = p_shuffle::permutations(nn);
            let per_cell = if quick { 300 } else { 3000 };
            let total = perms.len() * per_cell;
            let mut counts = std::collections::HashMap::new();
            let mut valid = true;
            for _ in 0..total {
                let pm = strand::shuffler::verif::gen_permutation(nn);
                let mut s = pm.clone();
                s.sort();
                valid &= s == (0..nn).collect::<Vec<_>>();
                *counts.entry(pm).or_insert(0usize) += 1;
            }
            v.h.check(valid, || format!("gen_permutation({}) returned a non-permutation", nn));
            let exp = per_cell as f64;
            let chi: f64 = perms.iter().map(|pm| { let o = *counts.get(pm).unwrap_or(&0) as f64; (o - exp) * (o - exp) / exp }).sum();
            let df = (perms.len() - 1) as f64;
            let z = 7.5f64; // one-sided normal quantile far beyond 1e-12
            let thr = df * (1.0 - 2.0 / (9.0 * df) + z * (2.0 / (9.0 * df)).sqrt()).powi(3);
            v.h.stat_n(&format!("chi2_N{}_x1000", nn), (chi * 1000.0) as u64);
            v.h.check(chi < thr && counts.len() == perms.len(), || format!("gen_permutation({}) is not uniform over the {} permutations: chi2 = {:.1} > {:.1} ({} distinct seen)", nn, perms.len(), chi, thr, counts.len()));
        }
    }
    // ---- ranges, on the implementation with OS randomness
    if v.small {
        let qn = q.to_u64_digits()[0] as usize;
        let draws_n = if quick { 300 * qn.min(60) } else { 3000 * qn.min(131) };
        let mut hist = vec![0u32; qn + 2];
        let mut out_of_range = None;
        for _ in 0..draws_n {
            match std::panic::catch_unwind(std::panic::AssertUnwindSafe(|| C::x_val(&ctx.rnd_exp()))) {
                Ok(x) => {
                    if x < q { hist[x.to_u64_digits().first().copied().unwrap_or(0) as usize] += 1 } else { out_of_range = Some(x) }
                }
                Err(_) => v.h.check(false, || format!("rnd_exp panicked on {}", tok)),
            }
        }
        v.h.check(out_of_range.is_none(), || format!("rnd_exp returned {:x} >= q on {}", out_of_range.clone().unwrap(), tok));
        let missing = (0..qn).filter(|i| hist[*i] == 0).count();
        v.h.check(missing == 0, || format!("rnd_exp never returned {} of the q = {} exponents in {} draws on {}", missing, qn, draws_n, tok));
        // random elements are members, generation never panics
        for _ in 0..(if quick { 500 } else { 20000 }) {
            match std::panic::catch_unwind(std::panic::AssertUnwindSafe(|| C::e_val(&ctx.rnd()))) {
                Ok(e) => v.h.check(e >= big(1) && e < p && e.modpow(&q, &p) == big(1), || format!("rnd() returned the non-member {:x} on {}", e, tok)),
                Err(_) => v.h.check(false, || format!("rnd() panicked on {}", tok)),
            }
            match std::panic::catch_unwind(std::panic::AssertUnwindSafe(|| ctx.rnd_plaintext())) {
                Ok(m) => v.h.check(ctx.encode(&m).is_ok(), || format!("rnd_plaintext() = {:x} is not encodable on {}", C::p_val(&m), tok)),
                Err(_) => v.h.check(false, || format!("rnd_plaintext() panicked on {}", tok)),
            }
        }
        if p > big(47) { return; }
    } else {
        // bit-length spread at 62 / 2048 bits
        let mut minb = u64::MAX;
        let mut maxb = 0;
        for _ in 0..(if quick { 40 } else { 400 }) {
            let x = C::x_val(&ctx.rnd_exp());
            v.h.check(x < q, || format!("rnd_exp out of range on {}", tok));
            minb = minb.min(x.bits());
            maxb = maxb.max(x.bits());
        }
        // (no lower bound on the smallest draw: a short value has probability 2^-k, asserting on it would be a flaky test)
        let _ = minb;
        v.h.check(maxb + 3 >= q.bits(), || format!("rnd_exp bit lengths {}..{} do not span the {}-bit range on {}", minb, maxb, q.bits(), tok));
    }
    // ---- freshness and draw accounting (OS randomness; value-level draws counted by the hook)
    let zkp = Zkp::new(&ctx);
    let sk = v.rnd_exp();
    let key = PrivateKey::from(&v.x(&sk), &ctx);
    let pk = key.get_pk();
    let m = v.rnd_member();
    let me = v.e(&m);
    let big_group = !v.small;
    let (c1, d1) = draws(|| pk.encrypt(&me));
    let (c2, _) = draws(|| pk.encrypt(&me));
    v.h.check(d1 == 1, || format!("encrypt made {} draws, expected 1 on {}", d1, tok));
    v.h.check(!big_group || c1 != c2, || format!("two encryptions of the same plaintext are equal on {}", tok));
    let (r1, d) = draws(|| pk.encrypt_and_pok(&me, b"l").unwrap());
    v.h.check(d == 2, || format!("encrypt_and_pok made {} draws, expected 2 on {}", d, tok));
    v.h.check(!big_group || C::x_val(&r1.2) != C::x_val(&r1.1.response), || format!("encrypt_and_pok reuses its randomness as nonce on {}", tok));
    let y = ctx.gmod_pow(&v.x(&sk));
    let (p1, d) = draws(|| zkp.schnorr_prove(&v.x(&sk), &y, None, b"").unwrap());
    let (p2, _) = draws(|| zkp.schnorr_prove(&v.x(&sk), &y, None, b"").unwrap());
    v.h.check(d == 1, || format!("schnorr_prove made {} draws, expected 1 on {}", d, tok));
    v.h.check(!big_group || p1.commitment != p2.commitment, || format!("two Schnorr proofs by the same secret share a nonce on {}", tok));
    v.h.check(!big_group || C::e_val(&p1.commitment) != g, || format!("a Schnorr commitment equals the public base on {}", tok));
    let g2 = { let t_ = v.rnd_member(); C::e_raw(&t_) };
    let y2 = ctx.emod_pow(&g2, &v.x(&sk));
    let (q1, d) = draws(|| zkp.cp_prove(&v.x(&sk), &y, &y2, None, &g2, b"").unwrap());
    let (q2, _) = draws(|| zkp.cp_prove(&v.x(&sk), &y, &y2, None, &g2, b"").unwrap());
    v.h.check(d == 1, || format!("cp_prove made {} draws, expected 1 on {}", d, tok));
    v.h.check(!big_group || q1.commitment1 != q2.commitment1, || format!("two CP proofs by the same secret share a nonce on {}", tok));
    let (_, d) = draws(|| key.decrypt_and_prove(&c1, b"").unwrap());
    v.h.check(d == 1, || format!("decrypt_and_prove made {} draws, expected 1 on {}", d, tok));
    for nn in if quick { vec![1usize, 3] } else { vec![1, 2, 5, 20] } {
        let s = p_shuffle::setup(v, &sk, nn, b"c18");
        let es = p_shuffle::make_cts(v, &s, nn, 2);
        let sh = Shuffler::new(&s.pk, &s.gens, &ctx);
        let ((eps, rs, perm), d) = draws(|| sh.gen_shuffle(&es));
        v.h.check(d == nn as u64, || format!("gen_shuffle of {} made {} exponent draws on {}", nn, d, tok));
        let ((eps2, _, _), _) = draws(|| sh.gen_shuffle(&es));
        let mut sp = perm.clone();
        sp.sort();
        v.h.check(sp == (0..nn).collect::<Vec<_>>(), || format!("gen_shuffle returned a non-permutation on {}", tok));
        if big_group {
            let mut rv: Vec<BigUint> = rs.iter().map(C::x_val).collect();
            v.h.check(rv.iter().all(|x| *x != big(0)), || format!("a re-encryption exponent is zero on {}", tok));
            rv.sort();
            rv.dedup();
            v.h.check(rv.len() == nn, || format!("re-encryption exponents within one shuffle are not pairwise distinct on {}", tok));
            let same = eps.iter().zip(eps2.iter()).filter(|(a, b)| a == b).count();
            v.h.check(same == 0 || nn > 1 && same < nn, || format!("two shuffles of the same input produced the same ciphertexts on {}", tok));
        }
        let (pf, d) = draws(|| sh.gen_proof(&es, &eps, &rs, &perm, b"").unwrap());
        v.h.check(d == (4 * nn + 4) as u64, || format!("gen_proof for N={} made {} draws, expected {} on {}", nn, d, 4 * nn + 4, tok));
        let (pf2, _) = draws(|| sh.gen_proof(&es, &eps, &rs, &perm, b"").unwrap());
        if big_group {
            let (a, b2) = (p_shuffle::PlainProof::from(&pf), p_shuffle::PlainProof::from(&pf2));
            v.h.check(a.cs != b2.cs && a.t != b2.t && a.c_hats != b2.c_hats, || format!("two proofs of the same shuffle share commitments on {}", tok));
            v.h.check(a.cs.iter().all(|c| !s.gensv.contains(c)), || format!("a permutation commitment equals a public generator on {}", tok));
        }
    }
    let (_, d) = draws(|| strand::threshold::gen_coefficients(5, &ctx));
    v.h.check(d == 5, || format!("gen_coefficients(5) made {} draws on {}", d, tok));
}
