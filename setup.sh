#!/bin/sh
# Build the verification framework from files on disk only (offline).
set -e
cd "$(dirname "$0")"
python3 tools/gen_constants.py
(cd lean && lake build)
(cd harness && CARGO_NET_OFFLINE=true cargo build --release --offline)
(cd harness && CARGO_NET_OFFLINE=true cargo build --release --offline --features rayon --target-dir target-rayon)
